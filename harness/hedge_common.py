"""Shared scenario builder for C02/C03/C14/C16/C18: a real derivative on injected dyadic buffers, a
real Hedger with a dyadic-weight model, and the same scenario as JSON for the Lean driver
(Float carrier: on dyadic data every IEEE operation is exact, so results are compared bitwise;
`log` features within a few ulp)."""
import math
from fractions import Fraction as F
from common import *  # noqa

OPTION_TYPES = ["EuropeanOption", "LookbackOption", "AmericanBinaryOption", "EuropeanBinaryOption"]
BASE_FEATURES = ["moneyness", "log_moneyness", "max_moneyness", "max_log_moneyness", "time_to_maturity",
                 "volatility", "variance", "underlier_spot", "underlier_log_spot", "spot", "log_spot",
                 "barrier_up", "barrier_down", "zeros", "ones", "empty"]
LOG_FEATURES = {"log_moneyness", "max_log_moneyness", "underlier_log_spot", "log_spot"}


def gen_market(g, N=None, T=None, primary=None):
    N = N or g.small((1, 2, 3))
    T = T or g.small((2, 2, 3, 4, 5, 6, 8))
    primary = primary or g.choice(["BrownianStock", "HestonStock", "MertonJumpStock", "LocalVolatilityStock"])
    spot = []
    for _ in range(N):
        p = []
        for t in range(T):
            p.append(p[-1] if (p and g.chance(0.15)) else g.dy(F(1, 2), 4, 3))
        spot.append(p)
    sig = g.choice([F(1, 4), F(1, 2), F(1, 8)])
    if primary == "HestonStock":
        vol = [[g.choice([F(1, 4), F(1, 2), F(3, 4), F(1, 8), F(0)]) for _ in range(T)] for _ in range(N)]
        var = [[v * v for v in r] for r in vol]
        if g.chance(0.3):     # a negative variance value: volatility = sqrt(clamp(var, 0)) = 0
            i, j = g.randint(0, N - 1), g.randint(0, T - 1)
            var[i][j] = -F(1, 16)
            vol[i][j] = F(0)
    elif primary == "LocalVolatilityStock":
        vol = [[g.choice([F(1, 4), F(1, 2), F(3, 4)]) for _ in range(T)] for _ in range(N)]
        var = [[v * v for v in r] for r in vol]
    else:
        vol = [[sig] * T for _ in range(N)]
        var = [[sig * sig] * T for _ in range(N)]
    return dict(N=N, T=T, primary=primary, spot=spot, vol=vol, var=var, sigma=sig,
                dt=g.choice([F(1, 4), F(1, 8), F(1, 256)]), strike=g.choice([F(1, 2), F(1), F(2), F(4)]),
                option=g.choice(OPTION_TYPES), call=g.chance(0.7), listed=(g.choice([F(1), F(2), F(1, 2)]), g.choice([F(0), F(1), F(1, 4)])),
                cost=F(g.choice([0, 0, 1, 4, 16]), 256))


def tens(torch, rows, dtype=None):
    return torch.tensor([[float(x) for x in r] for r in rows], dtype=dtype or torch.float64)


def build_derivative(torch, mk, dtype=None):
    import pfhedge.instruments as I
    dtype = dtype or torch.float64
    dt = float(mk["dt"])
    p = mk["primary"]
    if p == "BrownianStock":
        u = I.BrownianStock(sigma=float(mk["sigma"]), cost=float(mk["cost"]), dt=dt, dtype=dtype)
    elif p == "MertonJumpStock":
        u = I.MertonJumpStock(sigma=float(mk["sigma"]), cost=float(mk["cost"]), dt=dt, dtype=dtype)
    elif p == "HestonStock":
        u = I.HestonStock(cost=float(mk["cost"]), dt=dt, dtype=dtype)
    else:
        u = I.LocalVolatilityStock(lambda t, s: s, cost=float(mk["cost"]), dt=dt, dtype=dtype)
    inject(torch, u, mk, dtype)
    T = mk["T"]
    d = getattr(I, mk["option"])(u, call=mk["call"], strike=float(mk["strike"]), maturity=(T - 1) * dt)
    a, b = mk["listed"]
    d.list(lambda dd, a=float(a), b=float(b): dd.ul().spot * a + b, cost=float(mk["cost"]))
    return d, u


def extra_hedges(torch, g, mk, n_extra, dtype=None):
    """additional hedging instruments (primaries with injected dyadic buffers of the same shape)"""
    import pfhedge.instruments as I
    dtype = dtype or torch.float64
    out = []
    for _ in range(n_extra):
        s_ = I.BrownianStock(cost=float(F(g.choice([0, 1, 4]), 256)), dt=float(mk["dt"]), dtype=dtype)
        s_.register_buffer("spot", tens(torch, [[g.dy(F(1, 2), 4, 3) for _ in range(mk["T"])] for _ in range(mk["N"])], dtype))
        out.append(s_)
    return out


def inject(torch, u, mk, dtype=None):
    dtype = dtype or torch.float64
    u.register_buffer("spot", tens(torch, mk["spot"], dtype))
    if mk["primary"] == "HestonStock":
        u.register_buffer("variance", tens(torch, mk["var"], dtype))
    if mk["primary"] == "LocalVolatilityStock":
        u.register_buffer("volatility", tens(torch, mk["vol"], dtype))


def market_json(mk, path, oracle=None):
    a, b = mk["listed"]
    T = mk["T"]
    return {"spot": enc_flt([float(x) for x in mk["spot"][path]]),
            "variance": enc_flt([float(x) for x in mk["var"][path]]),
            "volatility": enc_flt([float(x) for x in mk["vol"][path]]),
            "listed": enc_flt([float(x * a + b) for x in mk["spot"][path]]),
            "dt": float_bits(float(mk["dt"])), "strike": float_bits(float(mk["strike"])),
            "oracle": enc_flt(oracle if oracle is not None else [0.0] * T)}


# ---- features ---------------------------------------------------------------------------------

def feature_obj(torch, name, mk, thr=None, sub=None):
    """real Feature object (or registered name) for a harness feature name"""
    from pfhedge.features import features as FF
    from pfhedge.features import ModuleOutput
    if name == "barrier_up":
        return FF.Barrier(float(thr), up=True)
    if name == "barrier_down":
        return FF.Barrier(float(thr), up=False)
    if name == "ones":
        return FF.Ones()
    if name == "underlier_log_spot":
        return FF.UnderlierLogSpot()
    if name == "log_spot":
        return FF.Spot(log=True)
    if name == "module_output":
        mod, ins = sub
        return ModuleOutput(mod, [feature_obj(torch, n, mk, thr) for n in ins])
    return name


def feature_json(name, thr=None, sub_json=None):
    table = {"moneyness": ["moneyness", False], "log_moneyness": ["moneyness", True],
             "max_moneyness": ["max_moneyness", False], "max_log_moneyness": ["max_moneyness", True],
             "time_to_maturity": ["time_to_maturity"], "volatility": ["volatility"], "variance": ["variance"],
             "underlier_spot": ["underlier_spot", False], "underlier_log_spot": ["underlier_spot", True],
             "spot": ["spot", False], "log_spot": ["spot", True], "zeros": ["zeros"], "ones": ["ones"],
             "empty": ["empty"], "prev_hedge": ["prev_hedge"]}
    if name == "barrier_up":
        return ["barrier", float_bits(float(thr)), True]
    if name == "barrier_down":
        return ["barrier", float_bits(float(thr)), False]
    if name == "module_output":
        gj, ins = sub_json
        return ["module_output", gj, [feature_json(n, thr) for n in ins]]
    return table[name]


# ---- models -----------------------------------------------------------------------------------

DY_W = [F(-1), F(-1, 2), F(0), F(1, 2), F(1), F(1, 4), F(-1, 4)]


def gen_linear(g, nin, nout, relu=None):
    w = [[g.choice(DY_W) for _ in range(nin)] for _ in range(nout)]
    b = [g.choice([F(0), F(1, 2), F(-1, 4)]) for _ in range(nout)]
    return dict(kind="linear", w=w, b=b, relu=g.chance(0.3) if relu is None else relu)


def gen_mlp(g, nin, nout):
    hid = g.choice([2, 3])
    # half of the MLPs are built with pfhedge's own MultiLayerPerceptron (lazy first layer in half of those)
    return dict(kind="mlp", pf=g.choice([None, None, "eager", "lazy"]), layers=[dict(w=[[g.choice(DY_W) for _ in range(nin)] for _ in range(hid)],
                                         b=[g.choice([F(0), F(1, 2)]) for _ in range(hid)]),
                                    dict(w=[[g.choice(DY_W) for _ in range(hid)] for _ in range(nout)],
                                         b=[g.choice([F(0), F(-1, 4)]) for _ in range(nout)])])


def model_json(ms):
    if ms["kind"] == "linear":
        return {"kind": "linear", "w": enc_flt([[float(x) for x in r] for r in ms["w"]]),
                "b": enc_flt([float(x) for x in ms["b"]]), "relu": ms["relu"]}
    if ms["kind"] == "mlp":
        return {"kind": "mlp", "layers": [{"w": enc_flt([[float(x) for x in r] for r in l["w"]]),
                                           "b": enc_flt([float(x) for x in l["b"]])} for l in ms["layers"]]}
    if ms["kind"] == "naked":
        return {"kind": "naked", "h": ms["h"]}
    if ms["kind"] == "drop_last":
        return {"kind": "drop_last", "h": ms["h"], "inner": model_json(ms["inner"])}
    if ms["kind"] == "bs_european":
        return {"kind": "bs_european", "call": ms["call"], "k": float_bits(ms["k"])}
    if ms["kind"] == "ww_european":
        return {"kind": "ww_european", "call": ms["call"], "k": float_bits(ms["k"]), "cost": float_bits(ms["cost"]),
                "a": float_bits(ms["a"])}
    raise ValueError(ms["kind"])


def model_obj(torch, ms, dtype=None):
    dtype = dtype or torch.float64
    from pfhedge.nn import Naked

    def lin(w, b):
        l = torch.nn.Linear(len(w[0]), len(w), dtype=dtype)
        with torch.no_grad():
            l.weight.copy_(torch.tensor([[float(x) for x in r] for r in w], dtype=dtype))
            l.bias.copy_(torch.tensor([float(x) for x in b], dtype=dtype))
        return l
    if ms["kind"] == "linear":
        l = lin(ms["w"], ms["b"])
        return torch.nn.Sequential(l, torch.nn.ReLU()) if ms["relu"] else l
    if ms["kind"] == "mlp" and ms.get("pf"):
        # pfhedge.nn.MultiLayerPerceptron with the same architecture, its Linear layers overwritten by the dyadic weights
        from pfhedge.nn import MultiLayerPerceptron
        Ls = ms["layers"]
        nin = None if ms["pf"] == "lazy" else len(Ls[0]["w"][0])
        m_ = MultiLayerPerceptron(nin, len(Ls[-1]["w"]), n_layers=len(Ls) - 1, n_units=tuple(len(l["w"]) for l in Ls[:-1]))
        m_ = m_.to(dtype)
        if ms["pf"] == "lazy":
            m_(torch.zeros(1, len(Ls[0]["w"][0]), dtype=dtype))      # materialise the LazyLinear
        lins = [x for x in m_ if isinstance(x, torch.nn.Linear)]
        assert len(lins) == len(Ls)
        with torch.no_grad():
            for lin_, l in zip(lins, Ls):
                lin_.weight.copy_(torch.tensor([[float(x) for x in r] for r in l["w"]], dtype=dtype))
                lin_.bias.copy_(torch.tensor([float(x) for x in l["b"]], dtype=dtype))
        return m_
    if ms["kind"] == "mlp":
        mods = []
        for i, l in enumerate(ms["layers"]):
            mods.append(lin(l["w"], l["b"]))
            if i + 1 < len(ms["layers"]):
                mods.append(torch.nn.ReLU())
        return torch.nn.Sequential(*mods)
    if ms["kind"] == "naked":
        return Naked(ms["h"])
    raise ValueError(ms["kind"])


def feature_width(name, H):
    return H if name == "prev_hedge" else 1


def close_ulp(a, b, ulps=4):
    if a == b:
        return True
    if math.isnan(a) or math.isnan(b):
        return math.isnan(a) and math.isnan(b)
    if math.isinf(a) or math.isinf(b):
        return False
    return abs(a - b) <= ulps * 2.0 ** -52 * max(abs(a), abs(b), 1e-300)
