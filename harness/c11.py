"""C11 — Simulated buffers are well-formed for every generator and instrument.

correspondence: the nine generators with recorded draws vs the Lean model (Model/Stoch.lean): the
model's outputs have the lengths, first entries and signs that Props/C11 proves; here their values
are compared on sweeps that include extreme regimes (high vol-of-vol, tiny variance).
predicate (real code): shape (paths, steps), first column == requested / documented default initial
state, finiteness, positivity of exponential-type prices, non-negative variances, volatility ==
sqrt(max(variance, 0)), requested dtype; instruments: all buffers one shape, re-simulation with a
different path count / horizon replaces every buffer.
"""
import math
from common import *  # noqa
from stoch_common import *  # noqa

POSITIVE = {"geometric_brownian", "heston", "merton_jump", "kou_jump", "rough_bergomi"}


def check(ctx):
    torch, pfhedge = import_impl()
    import pfhedge.stochastic as S
    import pfhedge.instruments as I
    g = ctx.gen
    ctx.lean_gate()
    torch.manual_seed(ctx.seed % (2 ** 31))
    n = 220 if ctx.tier == "quick" else 3000
    reqs, metas = [], []
    for it in range(n):
        name = g.choice(GENERATORS)
        p = gen_params(g, name)
        dname = g.weighted([("float64", 3), ("float32", 2)])
        dtype = getattr(torch, dname)
        case = {"generator": name, "params": p, "dtype": dname}
        try:
            out, rq, rec = run_generator(torch, name, p, dtype)
        except InternalError:
            raise
        except RecursionError:
            ctx.case(case, True, tag=name)
            ctx.fail("generator raised RecursionError", case, key=f"gen:{name}:recursion")
            continue
        except Exception as e:  # noqa
            ctx.case(case, True, tag=name)
            ctx.fail("generator raised on admissible parameters", case, key=f"gen:{name}:error", detail=repr(e)[:200])
            continue
        ctx.stats[f"generator={name}"] += 1
        ctx.stats[f"dtype={dname}"] += 1
        ctx.case(case, nontrivial=True, tag=name)
        ctx.traces += 1
        N, n_ = p["N"], p["n"]
        init = p.get("init", p.get("s0"))
        for k, t in out.items():
            if tuple(t.shape) != (N, n_):
                ctx.fail("generator output does not have shape (paths, steps)", case | {"series": k}, key=f"gen:{name}:shape", detail=list(t.shape))
                continue
            if t.dtype != dtype:
                ctx.fail("generator output is not in the requested dtype", case | {"series": k}, key=f"gen:{name}:dtype", detail=str(t.dtype))
            if not bool(t.isfinite().all()):
                ctx.fail("generator output contains non-finite values", case | {"series": k}, key=f"gen:{name}:{k}:nonfinite")
        want0 = {"spot": init}
        if name in ("heston", "rough_bergomi"):
            want0["variance"] = p["v0"]
        for k, w in want0.items():
            # the requested initial state, as representable in the requested dtype
            wq = float(torch.tensor(w, dtype=dtype))
            col = [float(x) for x in out[k][:, 0].tolist()]
            if any(c != wq for c in col):
                ctx.fail("the first column differs from the requested initial state", case | {"series": k}, key=f"gen:first-column:{dname}",
                         detail={"first": col[0], "requested": wq})
        if name in POSITIVE and not bool((out["spot"] >= 0).all()):
            ctx.fail("an exponential-type price process is negative", case, key=f"gen:{name}:negative")
        if name in POSITIVE and dname == "float64" and not bool((out["spot"] > 0).all()) and p["n"] <= 20:
            ctx.fail("an exponential-type price process is zero without underflow", case, key=f"gen:{name}:zero")
        if name == "cir" and not bool((out["spot"] >= 0).all()):
            ctx.fail("CIR variance process is negative", case, key="gen:cir:negative")
        if name == "heston" and not bool((out["variance"] >= 0).all()):
            ctx.fail("Heston variance process is negative", case, key="gen:heston:variance-negative")
        if dname == "float64":
            for i, r in enumerate(rq):
                reqs.append(r)
                metas.append((case | {"path": i}, {k: [float(x) for x in v[i].tolist()] for k, v in out.items()}))
    try:
        outs = ctx.driver(reqs)
    except DriverBroken as e:
        ctx.ties_broken.append({"kind": "driver", "detail": str(e)[:1500]})
        outs = []
    for (case, real), mo in zip(metas, outs):
        if "ok" not in mo:
            ctx.disagree("gen", case, real, mo)
            continue
        mv = mo["ok"]
        if isinstance(mv, list):
            mv = {"spot": mv}
        for k, arr in real.items():
            if k not in mv or not close_arr(arr, dec_flt(mv[k]), 1e-8, 1e-12):
                ctx.disagree("gen", case | {"series": k}, arr, dec_flt(mv[k]) if k in mv else None)
                break
    # ---------------- instruments
    def build(name, dtype):
        kw = {"dtype": dtype}
        if name == "LocalVolatilityStock":
            return I.LocalVolatilityStock(lambda t, s: torch.full_like(s, 0.2), **kw)
        if name == "HestonStock":
            return I.HestonStock(sigma=g.choice([0.2, 2.0]), **kw)
        if name == "CIRRate":
            return I.CIRRate(sigma=g.choice([0.2, 2.0]), **kw)
        return getattr(I, name)(**kw)
    prims = ["BrownianStock", "HestonStock", "CIRRate", "VasicekRate", "MertonJumpStock", "KouJumpStock", "RoughBergomiStock", "LocalVolatilityStock"]
    for it in range(40 if ctx.tier == "quick" else 600):
        name = g.choice(prims)
        dname = g.choice(["float32", "float64", None])
        dtype = None if dname is None else getattr(torch, dname)
        inst = build(name, dtype)
        case = {"instrument": name, "dtype": str(dname)}
        ctx.case(case | {"it": it}, True, tag="instrument")
        ctx.traces += 1
        ctx.stats[f"instrument={name}"] += 1
        hist = []
        for rnd in range(g.choice([1, 2, 3])):
            npaths, hor = g.choice([1, 2, 5]), g.choice([2, 5, 11]) / 250
            init = None
            if g.chance(0.4):
                d0 = inst.default_init_state
                init = tuple((float(x) * g.choice([1.0, 1.5, 0.5]) if float(x) != 0 else 0.05) for x in d0)
            st, v, _ = call_impl(inst.simulate, n_paths=npaths, time_horizon=hor, init_state=init)
            c2 = case | {"round": rnd, "n_paths": npaths, "horizon": hor, "init_state": init}
            if st != "ok":
                key = "vasicek:recursion" if v == "recursion_error" else f"instrument:{name}:simulate-error"
                ctx.fail("simulate() raised", c2, key=key, detail=v)
                break
            T = math.ceil(hor / inst.dt - 1e-8) + 1
            bufs = dict(inst.named_buffers())
            want = torch.get_default_dtype() if dtype is None else dtype
            for bn, b in bufs.items():
                if tuple(b.shape) != (npaths, T):
                    ctx.fail("after simulate() a buffer does not have shape (n_paths, n_steps): previous simulation not replaced entirely?", c2 | {"buffer": bn},
                             key=f"instrument:{name}:buffer-shape", detail={"shape": list(b.shape), "expected": [npaths, T]})
                if b.dtype != want:
                    ctx.fail("a simulated buffer is not in the instrument's dtype", c2 | {"buffer": bn}, key=f"instrument:{name}:buffer-dtype", detail=str(b.dtype))
                if not bool(b.isfinite().all()):
                    ctx.fail("a simulated buffer contains non-finite values", c2 | {"buffer": bn}, key=f"instrument:{name}:nonfinite")
            state = init if init is not None else inst.default_init_state
            names_ = ["spot", "variance"] if name in ("HestonStock", "RoughBergomiStock") else ["spot"]
            for bn, w in zip(names_, state):
                wq = float(torch.tensor(float(w), dtype=want))
                if bn in bufs and any(float(x) != wq for x in bufs[bn][:, 0].tolist()):
                    ctx.fail("the first column of a simulated buffer differs from the requested / default initial state", c2 | {"buffer": bn},
                             key=f"instrument:first-column:{str(want).replace('torch.', '')}", detail={"first": float(bufs[bn][0, 0]), "requested": wq})
            if name in ("HestonStock", "RoughBergomiStock"):
                vol, var = inst.volatility, inst.variance
                if not torch.equal(vol, var.clamp(min=0.0).sqrt()):
                    ctx.fail("volatility is not the square root of the (clamped) variance", c2, key=f"instrument:{name}:volatility")
                if name == "HestonStock" and not bool((var >= 0).all()):
                    ctx.fail("Heston variance buffer is negative", c2, key="instrument:HestonStock:variance-negative")
            if name in ("BrownianStock", "MertonJumpStock", "KouJumpStock"):
                if not torch.allclose(inst.volatility.square(), inst.variance):
                    ctx.fail("volatility is not the square root of variance", c2, key=f"instrument:{name}:volatility")
            if name not in ("CIRRate", "VasicekRate") and not bool((inst.spot > 0).all()):
                ctx.fail("a price process is not positive", c2, key=f"instrument:{name}:positivity")
    return ctx.finish(
        rule="nine generators x parameter sweeps (non-default initial states, high vol-of-vol / tiny variance, zero and high jump intensities) x "
             "float32/float64; eight primary instruments with repeated simulate() under changing path counts / horizons / initial states; every case "
             "non-trivial; distinct = sha1 of canonical case")
