"""C11 — Simulated buffers are well-formed for every generator and instrument.

correspondence: the nine generators with recorded draws vs the Lean model (Model/Stoch.lean): the
model's outputs have the lengths, first entries and signs that Props/C11 proves; here their values
are compared on sweeps that include extreme regimes (high vol-of-vol, tiny variance).
predicate (real code): shape (paths, steps), first column == requested / documented default initial
state, finiteness, positivity of exponential-type prices, non-negative variances, volatility ==
sqrt(max(variance, 0)), requested dtype; instruments: all buffers one shape, re-simulation with a
different path count / horizon replaces every buffer; horizons that are not multiples of dt (below, at and above half a step, on the default and
other time grids, passed to simulate() or as the maturity of a derivative): (n_paths, n_steps + 1) with n_steps the minimum integer such that
n_steps * dt >= horizon, on every primary class; every way of asking for a dtype (constructor argument, to(dtype), to(dtype=...), double() float64() float()
float32() half() float16() bfloat16()) under BOTH global default dtypes, before the first simulate() and on a simulated instrument; user classes
derived from the eight primary classes that override the documented hook default_init_state (floats, 0-dim tensors, computed from an attribute
set in an overridden __init__): simulated without init_state the first column is the default of the derived class; NON-default initial
states in every spelling (tuples of floats / 0-dim tensors / 1-element tensors / ints, bare float / tensor / int, tensors in either dtype) for every
generator and instrument in both dtypes, the jump models at zero intensity (0 and 0.0) and at a positive one (runs without jumps driven by a supplied
engine also against the model, op gen); a SECOND dtype request on an instrument that already carries an explicit dtype (constructor argument or an
earlier cast) and has been simulated in it: the existing buffers follow at once (every spelling, to(tensor), to(instrument), a cast of a derivative
written on the instrument; a device-only call afterwards changes nothing), also replayed in the system model; the dtype requested through ANOTHER
INSTRUMENT, to(x) and to(instrument=x), x a primary (also of another class, simulated, cast) or a derivative (shipped and user-defined, fresh / simulated / cast
after construction; its dtype is its underlier's) in float64 / float32 / float16, as a first and as a second request, before and after simulate, on every
primary class under both global defaults (system model too); a float64 spot series holds float64 values (not float32 numbers relabelled); INTEGER-typed initial states (Python
ints / bools, int64 / int32 / bool tensors, tuple or bare, mixed with floats) with the dtype unset (under both global defaults) and set, for every
generator and instrument: float series of the requested / default dtype starting at that number; the functional form and the instrument with the
SAME arguments (asymmetric, boundary-admissible and inadmissible parameter sets, random ones): simulate() succeeds iff the functional does, and
under the same seed registers the very series the functional returns.
correspondence with the system model (Model/InstrSys.lean, op "instr_sys", theorems Lemmas/C11Buffers.lean): every instrument session
(repeated simulate() with changing n_paths / horizon on every primary class and dtype, user register_buffer calls in between that
overwrite a simulated buffer with another shape) is replayed in the model; after every call the buffers' names, dtypes, shapes, the
identity of the tensor objects against the model's generation numbers and the model's record of the last simulate are compared.
"""
import math
from common import *  # noqa
from stoch_common import *  # noqa

POSITIVE = {"geometric_brownian", "heston", "merton_jump", "kou_jump", "rough_bergomi"}


class KeepingEngine:
    """an `engine` that draws standard normals and keeps a copy of every tensor it hands out"""

    def __init__(self, torch):
        self.torch, self.draws = torch, []

    def __call__(self, *size, dtype=None, device=None):
        z = self.torch.randn(*size, dtype=dtype, device=device)
        self.draws.append(z.clone())
        return z


def jumpless_requests(name, p, z):
    """model requests (op gen, one per path) of a Brownian / geometric Brownian / jump-model run in which NO jump was drawn, driven by the
    normals `z` (n_paths, n_steps) that the caller's engine handed out: the model needs no jump draws then"""
    fb = float_bits
    N, n = z.shape
    out = []
    for r in range(N):
        zr = enc_flt([float(x) for x in z[r].tolist()])
        if name in ("brownian", "geometric_brownian"):
            out.append({"op": "gen", "name": name, "p": {k: fb(p[k]) for k in ("init", "sigma", "mu", "dt")}, "draws": {"z": zr}})
        elif name == "merton_jump":
            out.append({"op": "gen", "name": name, "p": {k: fb(p[k]) for k in ("init", "mu", "sigma", "lam", "jm", "js", "dt")},
                        "draws": {"nj": enc_flt([0.0] * (n - 1)), "zj": enc_flt([0.0] * (n - 1)), "z": zr}})
        else:
            out.append({"op": "gen", "name": name,
                        "p": {"init": fb(p["init"]), "sigma": fb(p["sigma"]), "mu": fb(p["mu"]), "lam": fb(p["lam"]), "eta_up": fb(1 / p["mean_up"]),
                              "eta_down": fb(1 / p["mean_down"]), "p_up": fb(p["p_up"]), "dt": fb(p["dt"])},
                        "draws": {"jumps": enc_flt([[] for _ in range(n - 1)]), "z": zr}})
    return out


def run_generator_c11(torch, S, name, p, dtype):
    """run_generator of stoch_common; a jump model at ZERO intensity is free not to draw any jump counts (there is nothing to draw), so when
    the recording finds no Poisson draw there, the generator is called again with an engine that keeps the normals it hands out, and the
    model requests are those of a run without jumps driven by the normals of that call (every predicate is evaluated on that call)"""
    try:
        return run_generator(torch, name, p, dtype)
    except InternalError as e:
        if not (name in ("merton_jump", "kou_jump") and p["lam"] == 0.0 and "poisson" in str(e)):
            raise
    eng = KeepingEngine(torch)
    if name == "merton_jump":
        o = S.generate_merton_jump(p["N"], p["n"], init_state=(p["init"],), mu=p["mu"], sigma=p["sigma"], jump_per_year=p["lam"], jump_mean=p["jm"],
                                   jump_std=p["js"], dt=p["dt"], dtype=dtype, engine=eng)
    else:
        o = S.generate_kou_jump(p["N"], p["n"], init_state=(p["init"],), sigma=p["sigma"], mu=p["mu"], jump_per_year=p["lam"], jump_mean_up=p["mean_up"],
                                jump_mean_down=p["mean_down"], jump_up_prob=p["p_up"], dt=p["dt"], dtype=dtype, engine=eng)
    zs = [z for z in eng.draws if tuple(z.shape) == (p["N"], p["n"])]
    return {"spot": o}, (jumpless_requests(name, p, zs[-1]) if zs else []), None


def init_spellings(torch, state, tdtype):
    """the ways of writing ONE initial state `state` (a tuple of floats): [(name of the spelling, init_state argument)].  Tensors are given
    in `tdtype`; integers only when every component is a whole number."""
    T = lambda x, shape=None: torch.tensor(x if shape is None else [x], dtype=tdtype)      # noqa
    forms = [("tuple of floats", tuple(state)), ("tuple of 0-dim tensors", tuple(T(x) for x in state)),
             ("tuple of 1-element tensors", tuple(T(x, 1) for x in state))]
    if len(state) == 1:
        forms += [("bare float", state[0]), ("bare 0-dim tensor", T(state[0])), ("bare 1-element tensor", T(state[0], 1))]
    else:
        forms += [("tuple (float, 0-dim tensor)", (state[0], T(state[1]))), ("tuple (0-dim tensor, float)", (T(state[0]), state[1]))]
    if all(float(x).is_integer() for x in state):
        forms += [("tuple of ints", tuple(int(x) for x in state))] + ([("bare int", int(state[0]))] if len(state) == 1 else [])
    return forms


def check(ctx):
    torch, pfhedge = import_impl()
    import pfhedge.stochastic as S
    import pfhedge.instruments as I
    g = ctx.gen
    ctx.lean_gate()
    torch.manual_seed(ctx.seed % (2 ** 31))
    n = 1000 if ctx.tier == "quick" else 5000
    reqs, metas = [], []
    for it in range(n):
        name = g.choice(GENERATORS)
        p = gen_params(g, name)
        dname = g.weighted([("float64", 3), ("float32", 2)])
        dtype = getattr(torch, dname)
        case = {"generator": name, "params": p, "dtype": dname}
        try:
            out, rq, rec = run_generator_c11(torch, S, name, p, dtype)
        except InternalError:
            raise
        except RecursionError:
            ctx.case(case, True, tag=name)
            ctx.fail("generator raised RecursionError", case, key=f"gen:{name}:recursion")
            continue
        except Exception as e:  # noqa
            ctx.case(case, True, tag=name)
            ctx.fail("generator raised on admissible parameters", case, key=f"gen:{name}:error", detail=repr(e)[:200])
            continue
        ctx.stats[f"generator={name}"] += 1
        ctx.stats[f"dtype={dname}"] += 1
        ctx.case(case, nontrivial=True, tag=name)
        ctx.traces += 1
        N, n_ = p["N"], p["n"]
        init = p.get("init", p.get("s0"))
        for k, t in out.items():
            if tuple(t.shape) != (N, n_):
                ctx.fail("generator output does not have shape (paths, steps)", case | {"series": k}, key=f"gen:{name}:shape", detail=list(t.shape))
                continue
            if t.dtype != dtype:
                ctx.fail("generator output is not in the requested dtype", case | {"series": k}, key=f"gen:{name}:dtype", detail=str(t.dtype))
            if not bool(t.isfinite().all()):
                # float32 sweeps reach magnitudes beyond the format (e^88): an overflow to +inf of a value that is that large is a
                # limit of the dtype (like the underflow the property exempts) and is counted, not reported; NaN and -inf never are
                if dname == "float32" and not bool(t.isnan().any()) and not bool((t == -math.inf).any()):
                    ctx.stats["float32_overflow_to_inf"] += 1
                else:
                    ctx.fail("generator output contains non-finite values", case | {"series": k}, key=f"gen:{name}:{k}:nonfinite")
        want0 = {"spot": init}
        if name in ("heston", "rough_bergomi"):
            want0["variance"] = p["v0"]
        for k, w in want0.items():
            # the requested initial state, as representable in the requested dtype
            wq = float(torch.tensor(w, dtype=dtype))
            col = [float(x) for x in out[k][:, 0].tolist()]
            if any(c != wq for c in col):
                ctx.fail("the first column differs from the requested initial state", case | {"series": k}, key=f"gen:first-column:{dname}",
                         detail={"first": col[0], "requested": wq})
        if name in POSITIVE and not bool((out["spot"] >= 0).all()):
            ctx.fail("an exponential-type price process is negative", case, key=f"gen:{name}:negative")
        # (jump models with hundreds of large down-jumps legitimately underflow even in float64: the zero is then the model's value too)
        mild = not (name in ("merton_jump", "kou_jump") and p["lam"] * p["n"] * p["dt"] * max(abs(p.get("jm", 0.0)), p.get("mean_down", 0.0)) > 300)
        if name in POSITIVE and dname == "float64" and mild and not bool((out["spot"] > 0).all()) and p["n"] <= 20:
            ctx.fail("an exponential-type price process is zero without underflow", case, key=f"gen:{name}:zero")
        if name == "cir" and not bool((out["spot"] >= 0).all()):
            ctx.fail("CIR variance process is negative", case, key="gen:cir:negative")
        if name == "heston" and not bool((out["variance"] >= 0).all()):
            ctx.fail("Heston variance process is negative", case, key="gen:heston:variance-negative")
        if dname == "float64":
            for i, r in enumerate(rq):
                reqs.append(r)
                metas.append((case | {"path": i}, {k: [float(x) for x in v[i].tolist()] for k, v in out.items()}))
    # ---------------- corpus, every tier: NON-default initial states in EVERY spelling (tuple of floats / of 0-dim tensors / of 1-element
    # tensors, bare float / 0-dim tensor / 1-element tensor, whole numbers as Python ints; the tensors in the requested dtype or the other
    # one -- the values are dyadic, so the requested state is the same number in both) for every generator and every primary instrument,
    # in float32 and float64; the jump models at ZERO intensity (written 0 and 0.0: the no-jump limit) and at a positive one.  The first
    # column is the requested state whatever the other parameters are; shape, dtype, finiteness and positivity as everywhere.  Runs without
    # jumps that are driven by a supplied engine (Brownian, geometric Brownian, Merton / Kou generators and instruments at zero intensity)
    # also go to the model (op gen) with the normals the engine handed out.
    SP_N, SP_n, SP_DT = 3, 4, 1 / 250
    SP_P = {"sigma": 0.2, "mu": 0.1, "dt": SP_DT, "jm": -0.05, "js": 0.1, "mean_up": 0.02, "mean_down": 0.05, "p_up": 0.3}

    def spelled_call(entry, init_arg, dtype, lam, eng):
        kw = {"dt": SP_DT, "dtype": dtype}
        gb = {"sigma": SP_P["sigma"], "mu": SP_P["mu"]}
        mj = gb | {"jump_per_year": lam, "jump_mean": SP_P["jm"], "jump_std": SP_P["js"]}
        kj = gb | {"jump_per_year": lam, "jump_mean_up": SP_P["mean_up"], "jump_mean_down": SP_P["mean_down"], "jump_up_prob": SP_P["p_up"]}
        lv = lambda t, s: 0.2 + 0.0 * s      # noqa
        if entry in INSTRUMENTS.values():
            inst = {"BrownianStock": lambda: I.BrownianStock(**gb, **kw), "MertonJumpStock": lambda: I.MertonJumpStock(**mj, engine=eng, **kw),
                    "KouJumpStock": lambda: I.KouJumpStock(**kj, engine=eng, **kw), "HestonStock": lambda: I.HestonStock(**kw), "CIRRate": lambda: I.CIRRate(**kw),
                    "VasicekRate": lambda: I.VasicekRate(**kw), "RoughBergomiStock": lambda: I.RoughBergomiStock(**kw),
                    "LocalVolatilityStock": lambda: I.LocalVolatilityStock(lv, **kw)}[entry]()
            inst.simulate(n_paths=SP_N, time_horizon=(SP_n - 1) * SP_DT, init_state=init_arg)
            return dict(inst.named_buffers())
        a = (SP_N, SP_n)
        if entry == "brownian":
            return {"spot": S.generate_brownian(*a, init_state=init_arg, engine=eng, **gb, **kw)}
        if entry == "geometric_brownian":
            return {"spot": S.generate_geometric_brownian(*a, init_state=init_arg, engine=eng, **gb, **kw)}
        if entry == "merton_jump":
            return {"spot": S.generate_merton_jump(*a, init_state=init_arg, engine=eng, **mj, **kw)}
        if entry == "kou_jump":
            return {"spot": S.generate_kou_jump(*a, init_state=init_arg, engine=eng, **kj, **kw)}
        if entry == "vasicek":
            return {"spot": S.generate_vasicek(*a, init_state=init_arg, **kw)}
        if entry == "cir":
            return {"spot": S.generate_cir(*a, init_state=init_arg, **kw)}
        if entry == "local_volatility":
            o_ = S.generate_local_volatility_process(*a, lv, init_state=init_arg, **kw)
            return {"spot": o_.spot, "volatility": o_.volatility}
        o_ = (S.generate_heston if entry == "heston" else S.generate_rough_bergomi)(*a, init_state=init_arg, **kw)
        return {"spot": o_.spot, "variance": o_.variance}
    SP_STATES = {"brownian": [(-1.5,), (3.0,)], "vasicek": [(0.0625,), (0.0,)], "cir": [(0.0625,), (0.0,)], "heston": [(2.5, 0.0625), (100.0, 1.0)],
                 "rough_bergomi": [(2.5, 0.0625), (100.0, 1.0)]}
    sp_i = 0
    for gname in GENERATORS:
        for entry in [gname] + ([INSTRUMENTS[gname]] if gname in INSTRUMENTS else []):
            for lam in ((0, 0.0, 5.0) if gname in ("merton_jump", "kou_jump") else (None,)):
                for state in SP_STATES.get(gname, [(2.5,), (100.0,)]):
                    for dname in ("float32", "float64"):
                        dtype = getattr(torch, dname)
                        other = torch.float64 if dname == "float32" else torch.float32
                        for form, init_arg in init_spellings(torch, state, dtype):
                            sp_i += 1
                            tdt_ = other if ("tensor" in form and sp_i % 2) else dtype
                            if tdt_ is not dtype:
                                init_arg = dict(init_spellings(torch, state, tdt_))[form]
                            zero = lam is not None and lam == 0
                            case = {"corpus": "initial state in every spelling", "entry": entry, "init_state": list(state), "spelling": form,
                                    "tensors_given_in": str(tdt_).replace("torch.", "") if "tensor" in form else None, "dtype": dname,
                                    "jump_per_year": repr(lam) if lam is not None else None, "n_paths": SP_N, "n_steps": SP_n}
                            ctx.case(case, True, tag="init-spelling")
                            ctx.stats["init-spelling:zero-intensity"] += int(zero)
                            ctx.traces += 1
                            key = f"init-spelling:{entry}" + (":zero-intensity" if zero else "")
                            eng = KeepingEngine(torch)
                            try:
                                series = spelled_call(entry, init_arg, dtype, lam, eng)
                            except Exception as e:  # noqa
                                ctx.fail("a generator / instrument raised on a non-default initial state (" + form + ")", case, key=key + ":error", detail=repr(e)[:200])
                                continue
                            bad = {k: [list(t.shape), str(t.dtype)] for k, t in series.items()
                                   if tuple(t.shape) != (SP_N, SP_n) or t.dtype != dtype or not bool(t.isfinite().all())}
                            if bad or "spot" not in series:
                                ctx.fail("a non-default initial state (" + form + "): a series is not a finite (paths, steps) tensor of the requested dtype", case,
                                         key=key + ":malformed", detail=bad)
                                continue
                            for bn, w in zip(["spot", "variance"], state):
                                wq = float(torch.tensor(w, dtype=dtype))
                                col = [float(x) for x in series[bn][:, 0].tolist()]
                                if any(c != wq for c in col):
                                    ctx.fail("the first column differs from the requested initial state (" + form
                                             + (", jump intensity zero: the no-jump limit of a jump model starts where it was asked to start" if zero else "") + ")",
                                             case | {"series": bn}, key=key + ":first-column", detail={"first_column": col, "requested": wq})
                            if gname in POSITIVE and not bool((series["spot"] > 0).all()):
                                ctx.fail("an exponential-type price process is not positive (non-default initial state)", case, key=key + ":positivity")
                            if gname == "cir" and not bool((series["spot"] >= 0).all()):
                                ctx.fail("CIR variance process is negative", case, key="gen:cir:negative")
                            zs = [z for z in eng.draws if tuple(z.shape) == (SP_N, SP_n)]
                            if dname == "float64" and zs and (zero or gname in ("brownian", "geometric_brownian")):
                                pm = SP_P | {"init": float(state[0]), "lam": 0.0}
                                for r, rq_ in enumerate(jumpless_requests(gname, pm, zs[-1])):
                                    reqs.append(rq_)
                                    metas.append((case | {"path": r}, {"spot": [float(x) for x in series["spot"][r].tolist()]}))
    try:
        outs = ctx.driver(reqs)
    except DriverBroken as e:
        ctx.ties_broken.append({"kind": "driver", "detail": str(e)[:1500]})
        outs = []
    for (case, real), mo in zip(metas, outs):
        if "ok" not in mo:
            ctx.disagree("gen", case, real, mo)
            continue
        mv = mo["ok"]
        if isinstance(mv, list):
            mv = {"spot": mv}
        for k, arr in real.items():
            if k not in mv or not close_arr(arr, dec_flt(mv[k]), 1e-8, 1e-12):
                ctx.disagree("gen", case | {"series": k}, arr, dec_flt(mv[k]) if k in mv else None)
                break
    # ---------------- corpus: witnesses of repaired defects run on every tier (they must stay repaired)
    # generate_kou_jump multiplied exp(drift correction) by the product of exp(jumps): for large intensities the first overflows
    # while the second underflows in float32 and inf * 0 = nan although the price itself is an ordinary number
    for wi, kw in enumerate([
            dict(n_paths=3, n_steps=20, init_state=(1.0,), sigma=0.5, mu=0.1, jump_per_year=500.0, jump_mean_up=0.02, jump_mean_down=0.2, jump_up_prob=0.3, dt=0.1),
            dict(n_paths=2, n_steps=5, init_state=(2.0,), sigma=0.2, mu=0.1, jump_per_year=500.0, jump_mean_up=0.5, jump_mean_down=2.0, jump_up_prob=0.0, dt=0.1)]):
        for sd in range(3):
            torch.manual_seed(1000 + sd)
            case = {"corpus": "kou_jump float32 inf*0", "witness": wi, "torch_seed": 1000 + sd, "params": {k: v for k, v in kw.items()}}
            ctx.case(case, True, tag="corpus")
            st, o, _ = call_impl(S.generate_kou_jump, dtype=torch.float32, **kw)
            if st != "ok":
                ctx.fail("generate_kou_jump raised on admissible parameters", case, key="gen:kou_jump:error", detail=o)
            elif bool(o.isnan().any()) or not bool((o >= 0).all()):
                ctx.fail("generate_kou_jump returns NaN / negative prices in float32 (inf * 0: drift correction overflows while the jump product underflows)",
                         case, key="gen:kou_jump:spot:nonfinite", detail={"first_path": [float(x) for x in o[0].tolist()][:8]})
    # ---------------- extreme but admissible regimes in float32 (long horizons, frequent large jumps, high volatility): values may
    # overflow to +inf or underflow to 0, they are never NaN or negative (an `exp(a) * exp(b)` split would give inf * 0 here)
    extreme = [
        ("merton_jump", lambda: S.generate_merton_jump(3, 750, jump_per_year=68.0, jump_mean=-1.0, jump_std=0.3, dtype=torch.float32)),
        ("merton_jump", lambda: S.generate_merton_jump(3, 750, jump_per_year=68.0, jump_mean=1.0, jump_std=0.3, dtype=torch.float32)),
        ("merton_jump", lambda: S.generate_merton_jump(2, 400, jump_per_year=500.0, jump_mean=-0.5, jump_std=0.1, sigma=0.5, dtype=torch.float32)),
        ("kou_jump", lambda: S.generate_kou_jump(3, 750, jump_per_year=68.0, jump_mean_up=0.5, jump_mean_down=1.0, jump_up_prob=0.1, dtype=torch.float32)),
        ("geometric_brownian", lambda: S.generate_geometric_brownian(3, 2000, sigma=3.0, mu=-2.0, dtype=torch.float32)),
        ("heston", lambda: S.generate_heston(3, 750, sigma=2.0, theta=1.0, init_state=(1.0, 1.0), dtype=torch.float32).spot),
        ("rough_bergomi", lambda: S.generate_rough_bergomi(2, 300, eta=3.0, xi=0.5, init_state=(1.0, 0.5), dtype=torch.float32).spot),
    ]
    for ei, (gname, fn_) in enumerate(extreme):
        for sd in range(2):
            torch.manual_seed(2000 + sd)
            case = {"corpus": "extreme float32 regime", "generator": gname, "index": ei, "torch_seed": 2000 + sd}
            ctx.case(case, True, tag="corpus")
            st, o, _ = call_impl(fn_)
            if st != "ok":
                ctx.fail("a generator raised on admissible parameters", case, key=f"gen:{gname}:error", detail=o)
            elif bool(o.isnan().any()) or bool((o < 0).any()):
                ctx.fail("an exponential-type price process is NaN / negative in an extreme float32 regime (inf * 0 ?)", case,
                         key=f"gen:{gname}:spot:nonfinite", detail={"nan": int(o.isnan().sum()), "negative": int((o < 0).sum())})
    # ---------------- the smallest grids of the property's quantifier: ONE time step (n_steps = 1; an instrument simulated over a zero
    # horizon) and one path - every generator and every primary instrument has to return the initial state in shape (n_paths, 1)
    import pfhedge.instruments as I_
    one_step = [
        ("brownian", lambda N, dt_: S.generate_brownian(N, 1, init_state=(0.25,), dtype=dt_), 0.25),
        ("geometric_brownian", lambda N, dt_: S.generate_geometric_brownian(N, 1, init_state=(2.0,), dtype=dt_), 2.0),
        ("merton_jump", lambda N, dt_: S.generate_merton_jump(N, 1, init_state=(2.0,), dtype=dt_), 2.0),
        ("kou_jump", lambda N, dt_: S.generate_kou_jump(N, 1, init_state=(2.0,), dtype=dt_), 2.0),
        ("cir", lambda N, dt_: S.generate_cir(N, 1, init_state=(0.05,), dtype=dt_), 0.05),
        ("vasicek", lambda N, dt_: S.generate_vasicek(N, 1, init_state=(0.05,), dtype=dt_), 0.05),
        ("heston", lambda N, dt_: S.generate_heston(N, 1, init_state=(2.0, 0.09), dtype=dt_).spot, 2.0),
        ("local_volatility", lambda N, dt_: S.generate_local_volatility_process(N, 1, lambda t, s: 0.2 + 0.0 * s, init_state=(2.0,), dtype=dt_).spot, 2.0),
        ("rough_bergomi", lambda N, dt_: S.generate_rough_bergomi(N, 1, init_state=(2.0, 0.09), dtype=dt_).spot, 2.0),
    ]
    for gname, fn_, init in one_step:
        for N in (1, 3):
            for dt_ in (torch.float32, torch.float64):
                torch.manual_seed(3000 + N)
                case = {"corpus": "one time step", "generator": gname, "n_paths": N, "n_steps": 1, "dtype": str(dt_).replace("torch.", ""), "init": init}
                ctx.case(case, True, tag="one_step")
                st, o, _ = call_impl(fn_, N, dt_)
                if st != "ok":
                    ctx.fail("a generator raised for n_steps = 1 (the property quantifies over n_steps >= 1)", case, key=f"gen:{gname}:one-step:error", detail=o)
                elif tuple(o.shape) != (N, 1) or o.dtype != dt_ or not bool((o == torch.tensor(init, dtype=dt_)).all()):
                    ctx.fail("for n_steps = 1 a generator does not return the initial state in shape (n_paths, 1) and the requested dtype", case,
                             key=f"gen:{gname}:one-step:value", detail={"shape": list(o.shape), "dtype": str(o.dtype), "values": [float(x) for x in o.flatten().tolist()][:4]})
    one_step_inst = [("BrownianStock", lambda: I_.BrownianStock()), ("HestonStock", lambda: I_.HestonStock()), ("MertonJumpStock", lambda: I_.MertonJumpStock()),
                     ("KouJumpStock", lambda: I_.KouJumpStock()), ("CIRRate", lambda: I_.CIRRate()), ("VasicekRate", lambda: I_.VasicekRate()),
                     ("LocalVolatilityStock", lambda: I_.LocalVolatilityStock(lambda t, s: 0.2 + 0.0 * s)), ("RoughBergomiStock", lambda: I_.RoughBergomiStock())]
    for iname, mk in one_step_inst:
        for N in (1, 2):
            torch.manual_seed(3100 + N)
            case = {"corpus": "zero horizon", "instrument": iname, "n_paths": N, "time_horizon": 0.0}
            ctx.case(case, True, tag="one_step")
            inst = mk()
            st, o, _ = call_impl(inst.simulate, n_paths=N, time_horizon=0.0)
            if st != "ok":
                ctx.fail("an instrument raised when simulated over a zero horizon (one time point)", case, key=f"instrument:{iname}:one-step:error", detail=o)
                continue
            bufs = dict(inst.named_buffers())
            if not bufs or any(tuple(b.shape) != (N, 1) or not bool(b.isfinite().all()) for b in bufs.values()):
                ctx.fail("after a zero-horizon simulation the buffers are not finite series of shape (n_paths, 1)", case, key=f"instrument:{iname}:one-step:value",
                         detail={k: list(b.shape) for k, b in bufs.items()})
    # ---------------- corpus, every tier: the functional form and the instrument built on it, called with the SAME arguments.  Two classes:
    # (a) INTEGER-typed initial states (a stock quoted at 100 written (100,), 100, torch.tensor(100), ...: Python ints / bools, int64 / int32 /
    # bool tensors, 0-dim and 1-element, in a tuple or bare, mixed with floats) with the dtype left UNSET (then the documented default applies:
    # the global default dtype, under either global default) and set to float32 / float64 -- every generator and every primary instrument
    # returns a finite (paths, steps) series of that FLOATING dtype whose first column is the requested number, as for a float state;
    # (b) parameters at asymmetric / boundary-admissible values (every two parameters of one type differ, so that no two can change places
    # unnoticed; jump sizes >= 1, probabilities 0 and 1, correlations -1 / 0 / 1, zero volatilities / intensities, negative drifts and levels,
    # other time grids) and just outside the admissible set: an instrument accepts EXACTLY what its generator accepts (simulate() succeeds iff the
    # functional with the same parameters does) and, under the same seed, registers the very series the functional returns.
    def twin_functional(gname, N_, n_, init_arg, params, sigma_fn, dtype):
        kw = dict(params) | ({} if dtype is None else {"dtype": dtype}) | ({} if init_arg is None else {"init_state": init_arg})
        if gname == "local_volatility":
            o_ = S.generate_local_volatility_process(N_, n_, sigma_fn, **kw)
            return {"spot": o_.spot, "volatility": o_.volatility}
        o_ = getattr(S, "generate_" + gname)(N_, n_, **kw)
        return {"spot": o_.spot, "variance": o_.variance} if gname in ("heston", "rough_bergomi") else {"spot": o_}

    def twin_instrument(gname, N_, n_, init_arg, params, sigma_fn, dtype):
        kw = dict(params) | ({} if dtype is None else {"dtype": dtype})
        cls = getattr(I, INSTRUMENTS[gname])
        inst = cls(sigma_fn, **kw) if gname == "local_volatility" else cls(**kw)
        inst.simulate(n_paths=N_, time_horizon=(n_ - 1) * inst.dt, init_state=init_arg)
        return dict(inst.named_buffers())

    def twin_pair(gname, N_, n_, init_arg, params, sigma_fn, dtype, seed):
        """[functional, instrument (None when the generator has none)] -> ("ok", series) / ("error", repr), same torch seed"""
        res = []
        for fn_ in (twin_functional,) + ((twin_instrument,) if gname in INSTRUMENTS else ()):
            torch.manual_seed(seed)
            try:
                res.append(("ok", fn_(gname, N_, n_, init_arg, params, sigma_fn, dtype)))
            except RecursionError:
                res.append(("error", "RecursionError"))
            except Exception as e:  # noqa
                res.append(("error", repr(e)[:200]))
        return res + [None] * (2 - len(res))

    def same_series(a, b):
        return tuple(a.shape) == tuple(b.shape) and a.dtype == b.dtype and bool(((a == b) | (a.isnan() & b.isnan())).all())

    def twin_compare(gname, case, fun, ins, key):
        """the iff and the identity of the series; True when both returned"""
        iname = INSTRUMENTS[gname]
        if fun[0] != ins[0]:
            ctx.fail(("the generator accepts these arguments, the instrument built on it raises" if fun[0] == "ok" else
                      "the generator rejects these arguments, the instrument built on it simulates") + " (an instrument accepts exactly what its generator accepts)",
                     case, key=f"{key}:{iname}:" + ("instrument-raises" if fun[0] == "ok" else "instrument-accepts"),
                     detail={"functional": fun[1] if fun[0] == "error" else "ok", "instrument": ins[1] if ins[0] == "error" else "ok"})
            return False
        if fun[0] == "error":
            ctx.stats[f"{key}:both-reject"] += 1
            return False
        diff = [k for k, t in fun[1].items() if k not in ins[1] or not same_series(t, ins[1][k])] + [k for k in ins[1] if k not in fun[1]]
        if diff:
            k0 = diff[0]
            ctx.fail("under the same seed the instrument's buffers are not the series its generator returns for the same arguments", case | {"series": diff},
                     key=f"{key}:{iname}:differs-from-functional",
                     detail={"functional": [float(x) for x in fun[1][k0][0].tolist()][:4] if k0 in fun[1] else None,
                             "instrument": [float(x) for x in ins[1][k0][0].tolist()][:4] if k0 in ins[1] else None})
        return True

    def well_formed(gname, entry, series, N_, n_, want, state, case, key):
        bad = {k: [list(t.shape), str(t.dtype)] for k, t in series.items() if tuple(t.shape) != (N_, n_) or t.dtype != want or not bool(t.isfinite().all())}
        if bad or "spot" not in series:
            ctx.fail("a series is not a finite (paths, steps) tensor of the requested (unset: the global default) floating dtype", case | {"entry": entry},
                     key=f"{key}:{entry}:malformed", detail=bad)
            return
        for bn, w in zip(["spot", "variance"], state or ()):
            wq = float(torch.tensor(float(w), dtype=want))
            col = [float(x) for x in series[bn][:, 0].tolist()]
            if any(c != wq for c in col):
                ctx.fail("the first column differs from the requested initial state", case | {"entry": entry, "series": bn}, key=f"{key}:{entry}:first-column",
                         detail={"first_column": col, "requested": wq})
        if gname in POSITIVE and not bool((series["spot"] > 0).all()):
            ctx.fail("an exponential-type price process is not positive", case | {"entry": entry}, key=f"{key}:{entry}:positivity")
        if gname in ("cir", "heston") and not bool((series["spot" if gname == "cir" else "variance"] >= 0).all()):
            ctx.fail("a variance process is negative", case | {"entry": entry}, key=f"{key}:{entry}:variance-negative")
        if "volatility" in series and "variance" in series and not torch.equal(series["volatility"], series["variance"].clamp(min=0.0).sqrt()):
            ctx.fail("volatility is not the square root of the variance", case | {"entry": entry}, key=f"{key}:{entry}:volatility")

    lv_flat = lambda t, s: 0.2 + 0.0 * s      # noqa

    def int_spellings(state):
        """[(name, init_state argument)]: the ways of writing the whole-number state `state` (a tuple of ints) WITHOUT any floating type"""
        T = lambda x, dt_, shape=None: torch.tensor(x if shape is None else [x], dtype=dt_)      # noqa
        forms = [("tuple of ints", tuple(state)), ("tuple of 0-dim int64 tensors", tuple(T(x, torch.int64) for x in state)),
                 ("tuple of 0-dim int32 tensors", tuple(T(x, torch.int32) for x in state)),
                 ("tuple of 1-element int64 tensors", tuple(T(x, torch.int64, 1) for x in state))]
        if len(state) == 1:
            forms += [("bare int", state[0]), ("bare 0-dim int64 tensor", T(state[0], torch.int64)), ("bare 1-element int64 tensor", T(state[0], torch.int64, 1))]
        else:
            forms += [("tuple (int, float)", (state[0], float(state[1]))), ("tuple (float, 0-dim int64 tensor)", (float(state[0]), T(state[1], torch.int64))),
                      ("tuple (0-dim int64 tensor, int)", (T(state[0], torch.int64), state[1]))]
        if all(x in (0, 1) for x in state):
            forms += [("tuple of bools", tuple(bool(x) for x in state)), ("tuple of 0-dim bool tensors", tuple(T(bool(x), torch.bool) for x in state))]
        return forms
    # (b): True = admissible (both must return well-formed series), None = boundary / outside (only the iff and the identity of the series)
    GB_, VA_, CI_ = ("sigma", "mu"), ("kappa", "theta", "sigma"), ("kappa", "theta", "sigma")
    HE_, MJ_ = ("kappa", "theta", "sigma", "rho"), ("mu", "sigma", "jump_per_year", "jump_mean", "jump_std")
    KJ_, RB_ = ("sigma", "mu", "jump_per_year", "jump_mean_up", "jump_mean_down", "jump_up_prob"), ("alpha", "rho", "eta", "xi")
    TWIN = {
        "geometric_brownian": (GB_, [((0.3, 0.1), True), ((0.05, -0.5), True), ((1.5, 2.0), True), ((0.0, 0.25), None)]),
        "vasicek": (VA_, [((2.0, 0.1, 0.03), True), ((0.5, -0.01, 0.2), True), ((0.1, 0.0, 0.0), True), ((0.0, 0.5, 0.1), None)]),
        "cir": (CI_, [((2.0, 0.09, 0.5), True), ((0.1, 0.2, 2.0), True), ((5.0, 0.04, 0.01), True), ((1.0, 0.5, 0.0), None), ((0.0, 0.04, 0.2), None)]),
        "heston": (HE_, [((2.0, 0.09, 0.5, 0.3), True), ((0.1, 0.2, 2.0, -0.95), True), ((5.0, 0.04, 0.01, 0.0), True), ((1.5, 0.09, 0.3, -1.0), None),
                         ((1.5, 0.09, 0.3, 1.0), None), ((1.0, 0.04, 0.2, 1.5), None)]),
        "merton_jump": (MJ_, [((0.1, 0.3, 20.0, -0.2, 0.05), True), ((-0.3, 0.25, 5.0, 0.3, 0.0), True), ((0.05, 0.4, 0.0, -0.1, 0.2), True),
                              ((0.2, 0.1, 2.0, -1.5, 1.0), True), ((0.1, 0.3, 10.0, 0.05, -0.1), None), ((0.1, 0.3, -1.0, 0.05, 0.1), None)]),
        "kou_jump": (KJ_, [((0.3, 0.1, 20.0, 0.3, 1.0, 0.4), True), ((0.25, -0.2, 20.0, 0.1, 1.5, 0.5), True), ((0.2, 0.05, 5.0, 0.5, 2.5, 0.7), True),
                           ((0.2, 0.1, 10.0, 0.99, 0.01, 0.3), True), ((0.3, 0.1, 10.0, 0.05, 0.02, 0.0), True), ((0.3, 0.1, 10.0, 0.05, 0.02, 1.0), True),
                           ((0.3, 0.1, 0.0, 0.25, 1.25, 0.5), True), ((0.3, 0.1, 10.0, 1.0, 0.5, 0.5), None), ((0.3, 0.1, 10.0, 1.5, 0.25, 0.5), None),
                           ((0.3, 0.1, 10.0, 0.25, 0.0, 0.5), None), ((0.3, 0.1, 10.0, 0.0, 0.25, 0.5), None), ((0.3, 0.1, 10.0, -0.25, 0.5, 0.5), None),
                           ((0.3, 0.1, 10.0, 0.25, -0.5, 0.5), None), ((0.3, 0.1, 10.0, 0.25, 0.5, 1.5), None), ((0.3, 0.1, 10.0, 0.25, 0.5, -0.5), None)]),
        "rough_bergomi": (RB_, [((-0.3, -0.5, 1.0, 0.09), True), ((0.1, 0.5, 0.5, 0.2), True), ((-0.45, 0.0, 2.5, 0.01), True), ((-0.4, -1.0, 1.9, 0.04), None),
                                ((-0.4, 1.0, 1.9, 0.04), None)]),
        "local_volatility": ((), [((), True)]),
    }
    LV_FNS = [("0.2", lv_flat), ("0.1 + 0.05 * spot + 0.3 * time", lambda t, s: 0.1 + 0.05 * s + 0.3 * t), ("full_like(spot, 0.4)", lambda t, s: torch.full_like(s, 0.4))]
    TW_STATES = {"vasicek": [None, (0.0625,)], "cir": [None, (0.0625,)], "heston": [None, (2.5, 0.0625)], "rough_bergomi": [None, (2.5, 0.0625)]}
    twin_i = 0
    for gname, (names_, rows) in TWIN.items():
        for ri, (vals, admissible) in enumerate(rows):
            for state in TW_STATES.get(gname, [None, (2.5,)]):
                for dname in (None, "float32", "float64"):
                    twin_i += 1
                    dtype = None if dname is None else getattr(torch, dname)
                    want = torch.get_default_dtype() if dtype is None else dtype
                    dt_ = [1 / 250, 1 / 365, 0.1, 1 / 12][twin_i % 4]
                    N_, n_ = [1, 2, 3, 6][(twin_i // 2) % 4], [1, 2, 5, 11][(twin_i // 3) % 4] + (1 if gname == "rough_bergomi" else 0)
                    lvn, lvf = LV_FNS[twin_i % len(LV_FNS)]
                    params = dict(zip(names_, vals)) | ({} if twin_i % 5 == 0 else {"dt": dt_})
                    case = {"corpus": "instrument and generator, same arguments", "generator": gname, "instrument": INSTRUMENTS[gname], "params": params,
                            "sigma_fn": lvn if gname == "local_volatility" else None, "init_state": None if state is None else list(state), "dtype": dname,
                            "n_paths": N_, "n_steps": n_, "torch_seed": 5000 + twin_i, "admissible": admissible}
                    ctx.case(case, True, tag="twin")
                    ctx.stats[f"twin:{gname}"] += 1
                    ctx.traces += 1
                    fun, ins = twin_pair(gname, N_, n_, state, params, lvf, dtype, 5000 + twin_i)
                    if admissible:
                        # (without init_state: the documented default of the generator -- for the instrument the documented default of the class)
                        for entry, r_ in ((gname, fun), (INSTRUMENTS[gname], ins)):
                            if r_[0] != "ok":
                                ctx.fail("a generator / instrument raised on admissible parameters", case | {"entry": entry}, key=f"twin:{entry}:error", detail=r_[1])
                            elif dname != "float32" or all(bool(t.isfinite().all()) for t in r_[1].values()):
                                well_formed(gname, entry, r_[1], N_, n_, want, state, case, "twin")
                    # (without init_state the documented defaults coincide: (1.0,), (theta,), (1.0, theta), (1.0, xi))
                    twin_compare(gname, case, fun, ins, "twin")
    # ... and random parameter sets (the sweep of the generator loop above), through the instrument and the functional
    TW_KW = {"geometric_brownian": lambda p: {"sigma": p["sigma"], "mu": p["mu"]}, "vasicek": lambda p: {k: p[k] for k in VA_}, "cir": lambda p: {k: p[k] for k in CI_},
             "heston": lambda p: {k: p[k] for k in HE_}, "rough_bergomi": lambda p: {k: p[k] for k in RB_}, "local_volatility": lambda p: {},
             "merton_jump": lambda p: {"mu": p["mu"], "sigma": p["sigma"], "jump_per_year": p["lam"], "jump_mean": p["jm"], "jump_std": p["js"]},
             "kou_jump": lambda p: {"sigma": p["sigma"], "mu": p["mu"], "jump_per_year": p["lam"], "jump_mean_up": p["mean_up"], "jump_mean_down": p["mean_down"],
                                    "jump_up_prob": p["p_up"]}}
    for it in range(60 if ctx.tier == "quick" else 600):
        gname = g.choice(sorted(INSTRUMENTS))
        p = gen_params(g, gname)
        dname = g.choice(["float64", "float32", None])
        dtype = None if dname is None else getattr(torch, dname)
        state = (p["s0"], p["v0"]) if "s0" in p else (p["init"],)
        sigma_fn = (lambda a, b, c: (lambda t, s: a + b * s + c * t))(p.get("a"), p.get("b"), p.get("c"))
        seed = g.randint(0, 10 ** 6)
        case = {"instrument and generator, same arguments": "random", "generator": gname, "instrument": INSTRUMENTS[gname], "params": p, "dtype": dname, "torch_seed": seed}
        ctx.case(case, True, tag="twin-random")
        ctx.stats[f"twin:{gname}"] += 1
        ctx.traces += 1
        fun, ins = twin_pair(gname, p["N"], p["n"], state, TW_KW[gname](p) | {"dt": p["dt"]}, sigma_fn, dtype, seed)
        if fun[0] != "ok":
            ctx.fail("generator raised on admissible parameters", case, key=f"gen:{gname}:error", detail=fun[1])
        twin_compare(gname, case, fun, ins, "twin")
    # (a)
    INT_STATES = {"brownian": [(100,), (-2,)], "vasicek": [(1,), (0,)], "cir": [(1,), (0,)], "heston": [(100, 1), (1, 1)], "rough_bergomi": [(100, 1), (1, 1)]}
    try:
        for amb_name in ("float32", "float64"):
            torch.set_default_dtype(getattr(torch, amb_name))
            for gname in GENERATORS:
                # (explicit parameters: the defaults of generate_merton_jump and MertonJumpStock are not the same numbers)
                int_params = {"jump_per_year": 20.0, "jump_std": 0.05} if gname == "merton_jump" else {}
                for si, state in enumerate(INT_STATES.get(gname, [(100,), (1,)])):
                    for dname in (None, "float32", "float64") if amb_name == "float32" else (None,):
                        dtype = None if dname is None else getattr(torch, dname)
                        want = torch.get_default_dtype() if dtype is None else dtype
                        for fi, (form, init_arg) in enumerate(int_spellings(state)):
                            case = {"corpus": "integer-typed initial state", "generator": gname, "instrument": INSTRUMENTS.get(gname), "init_state": list(state),
                                    "spelling": form, "dtype": dname, "global_default_dtype": amb_name, "n_paths": SP_N, "n_steps": SP_n, "torch_seed": 4000 + fi}
                            ctx.case(case, True, tag="int-init")
                            ctx.stats["int-init:dtype=" + str(dname)] += 1
                            ctx.traces += 1
                            fun, ins = twin_pair(gname, SP_N, SP_n, init_arg, int_params, lv_flat, dtype, 4000 + fi)
                            for entry, r_ in ((gname, fun), (INSTRUMENTS.get(gname), ins)):
                                if r_ is None:
                                    continue
                                if r_[0] != "ok":
                                    ctx.fail("a generator / instrument raised on an integer-typed scalar initial state (" + form + "; dtype "
                                             + ("unset" if dname is None else dname) + "): a float series starting at that number is due, as for " + repr(tuple(float(x) for x in state)),
                                             case | {"entry": entry}, key=f"int-init:{entry}:error", detail=r_[1])
                                else:
                                    well_formed(gname, entry, r_[1], SP_N, SP_n, want, state, case, "int-init")
                            if ins is not None and fun[0] == "ok" and ins[0] == "ok":
                                twin_compare(gname, case, fun, ins, "int-init")
    finally:
        torch.set_default_dtype(torch.float32)
    # ---------------- instruments
    def build(name, dtype, dt=1 / 250):
        kw = {"dtype": dtype, "dt": dt}
        if name == "LocalVolatilityStock":
            return I.LocalVolatilityStock(lambda t, s: torch.full_like(s, 0.2), **kw)
        if name == "HestonStock":
            return I.HestonStock(sigma=g.choice([0.2, 2.0]), **kw)
        if name == "CIRRate":
            return I.CIRRate(sigma=g.choice([0.2, 2.0]), **kw)
        return getattr(I, name)(**kw)
    prims = ["BrownianStock", "HestonStock", "CIRRate", "VasicekRate", "MertonJumpStock", "KouJumpStock", "RoughBergomiStock", "LocalVolatilityStock"]
    GRID_DTS = [1 / 250, 1 / 250, 1 / 365, 0.01, 0.1]
    FRACS_FIRST = [0.25, 0.5, 0.75]         # first round of the systematic part: every class below, at and above half a step
    FRACS = [0.0, 0.0, 0.0, 0.1, 0.24, 0.25, 0.4, 0.5, 0.5, 0.6, 0.75, 0.9]
    import c17 as SYS                       # the system model's harness side (scenario format, comparison)
    SHORT = {"float32": "f32", "float64": "f64", None: None}
    sessions = []                           # (scenario, real execution) per instrument session, for op "instr_sys"
    # every class x every dtype once, then random picks
    plan = [(n_, d_) for n_ in prims for d_ in ("float32", "float64", None)]
    n_rand = 40 if ctx.tier == "quick" else 600
    for it in range(len(plan) + n_rand):
        name, dname = plan[it] if it < len(plan) else (g.choice(prims), g.choice(["float32", "float64", None]))
        dtype = None if dname is None else getattr(torch, dname)
        # the time grid: the library's default step and other legal ones (daily on a 365-day year, coarse decimal steps)
        dt_i = 1 / 250 if (it < len(plan) and it % 2 == 0) else g.choice(GRID_DTS)
        inst = build(name, dtype, dt_i)
        case = {"instrument": name, "dtype": str(dname), "dt": dt_i}
        ctx.case(case | {"it": it}, True, tag="instrument")
        ctx.traces += 1
        ctx.stats[f"instrument={name}"] += 1
        hist = []
        keep = []
        scen = {"ambient": "f32", "prims": [[name, SHORT[dname]]], "derivs": [], "cmds": [], "forms": []}
        sess_out = []
        sess0 = SYS.isys_observe_single(torch, inst, keep)
        sessions.append((scen, (sess0, sess_out)))
        sim_names = SYS.ISYS_SIM[SYS.ISYS_KIND[name]]

        def record(cmd):
            o_, ob_ = SYS.isys_observe_single(torch, inst, keep)
            scen["cmds"].append(cmd)
            scen["forms"].append(None)
            sess_out.append(("op", ("ok", None), o_, ob_))
        n_rounds = 3 if it < len(plan) else g.choice([1, 2, 3])
        for rnd in range(n_rounds):
            # the horizon in units of dt: k whole steps plus a fraction of a step.  A horizon that is not a multiple of dt (on either
            # side of half a step, and exactly half a step) needs one more step: "n_steps the minimum integer with n_steps * dt >= horizon"
            npaths, k_steps = g.choice([1, 2, 5]), g.choice([0, 1, 2, 5, 11, 12])
            frac = FRACS_FIRST[it % 3] if (it < len(plan) and rnd == 0) else g.choice(FRACS)
            if k_steps == 0 and frac == 0.0:
                k_steps = 2                # (the zero horizon is the "one time step" block above)
            hor = (k_steps + frac) * dt_i
            via_derivative = g.chance(0.25)
            init = None
            if g.chance(0.5):
                d0 = inst.default_init_state
                init = tuple((float(x) * g.choice([1.0, 1.5, 0.5]) if float(x) != 0 else 0.05) for x in d0)
                if name in ("VasicekRate", "CIRRate") and g.chance(0.3):
                    init = (0.0,)          # a zero initial short rate is a legal request
            init_arg = init
            if init is not None and len(init) == 1:
                # the initial state may be passed as a tuple, a bare scalar or a 0-dim tensor (cast_state accepts all three)
                form = g.choice(["tuple", "scalar", "tensor0"])
                init_arg = init if form == "tuple" else (init[0] if form == "scalar" else
                                                         torch.tensor(init[0], dtype=(torch.get_default_dtype() if dtype is None else dtype)))
            if via_derivative:
                # the horizon reaches the instrument as the maturity of a derivative written on it
                st, v, _ = call_impl(I.EuropeanOption(inst, maturity=hor).simulate, n_paths=npaths, init_state=init_arg)
            else:
                st, v, _ = call_impl(inst.simulate, n_paths=npaths, time_horizon=hor, init_state=init_arg)
            c2 = case | {"round": rnd, "n_paths": npaths, "horizon": hor, "horizon_in_steps": k_steps + frac, "via_derivative": via_derivative,
                         "init_state": init, "init_form": None if init_arg is None else type(init_arg).__name__}
            ctx.stats["instrument:horizon=" + ("multiple_of_dt" if frac == 0.0 else "below_half_step" if frac < 0.5 else
                                               "half_step" if frac == 0.5 else "above_half_step")] += 1
            if st != "ok":
                key = "vasicek:recursion" if v == "recursion_error" else f"instrument:{name}:simulate-error"
                ctx.fail("simulate() raised", c2, key=key, detail=v)
                break
            T = math.ceil(hor / inst.dt - 1e-8) + 1
            # the same number from the construction of the horizon (independent of the rounding rule): k whole steps, one more for a
            # started step, plus the column of t = 0
            if T != k_steps + (1 if frac > 0.0 else 0) + 1:
                raise InternalError(f"harness: the grid rule gives {T} columns for a horizon of {k_steps} + {frac} steps")
            record(["prim_sim", 0, npaths, T])
            bufs = dict(inst.named_buffers())
            want = torch.get_default_dtype() if dtype is None else dtype
            for bn, b in bufs.items():
                if frac > 0.0 and b.dim() == 2 and b.shape[1] != T:
                    ctx.fail("a horizon that is not a multiple of dt: the buffer does not have (n_paths, n_steps + 1) columns with n_steps the minimum "
                             "integer such that n_steps * dt >= time_horizon (the simulated period has to cover the horizon, every instrument the same grid)",
                             c2 | {"buffer": bn}, key=f"instrument:{name}:fractional-horizon:buffer-shape",
                             detail={"shape": list(b.shape), "expected": [npaths, T], "covered": (b.shape[1] - 1) * inst.dt, "horizon": hor})
                if tuple(b.shape) != (npaths, T):
                    ctx.fail("after simulate() a buffer does not have shape (n_paths, n_steps): previous simulation not replaced entirely?", c2 | {"buffer": bn},
                             key=f"instrument:{name}:buffer-shape", detail={"shape": list(b.shape), "expected": [npaths, T]})
                if b.dtype != want:
                    ctx.fail("a simulated buffer is not in the instrument's dtype", c2 | {"buffer": bn}, key=f"instrument:{name}:buffer-dtype", detail=str(b.dtype))
                if not bool(b.isfinite().all()):
                    ctx.fail("a simulated buffer contains non-finite values", c2 | {"buffer": bn}, key=f"instrument:{name}:nonfinite")
            state = init if init is not None else inst.default_init_state
            names_ = ["spot", "variance"] if name in ("HestonStock", "RoughBergomiStock") else ["spot"]
            for bn, w in zip(names_, state):
                wq = float(torch.tensor(float(w), dtype=want))
                if bn in bufs and any(float(x) != wq for x in bufs[bn][:, 0].tolist()):
                    ctx.fail("the first column of a simulated buffer differs from the requested / default initial state", c2 | {"buffer": bn},
                             key=f"instrument:first-column:{str(want).replace('torch.', '')}", detail={"first": float(bufs[bn][0, 0]), "requested": wq})
            if name in ("HestonStock", "RoughBergomiStock"):
                vol, var = inst.volatility, inst.variance
                if not torch.equal(vol, var.clamp(min=0.0).sqrt()):
                    ctx.fail("volatility is not the square root of the (clamped) variance", c2, key=f"instrument:{name}:volatility")
                if name == "HestonStock" and not bool((var >= 0).all()):
                    ctx.fail("Heston variance buffer is negative", c2, key="instrument:HestonStock:variance-negative")
            if name in ("BrownianStock", "MertonJumpStock", "KouJumpStock"):
                if not torch.allclose(inst.volatility.square(), inst.variance):
                    ctx.fail("volatility is not the square root of variance", c2, key=f"instrument:{name}:volatility")
            if name not in ("CIRRate", "VasicekRate") and not bool((inst.spot > 0).all()):
                ctx.fail("a price process is not positive", c2, key=f"instrument:{name}:positivity")
            if g.chance(0.4):
                last = rnd == n_rounds - 1
                bname = g.choice(sim_names + (["extra"] if last else []))
                bshape = [g.choice([1, 2, 3, 4]), g.choice([1, 3, 7])]
                bdt = g.choice(["f32", "f64"])
                inst.register_buffer(bname, torch.ones(*bshape, dtype=getattr(torch, SYS.DT[bdt])))
                ctx.stats["instrument:user_register_buffer"] += 1
                record(["prim_reg", 0, bname, bdt, bshape])
    # ---------------- every way of asking for a dtype, under BOTH global default dtypes: the constructor argument (incl. None = the global
    # default), to(dtype) / to(dtype=...), and the casting aliases double() float64() float() float32() half() float16() bfloat16() -- on
    # all eight primary classes, before the first simulate() and on an instrument that has been simulated (the existing buffers are cast, the
    # next simulate() keeps the requested dtype).  Whatever the spelling and whatever torch.get_default_dtype() happens to be, every buffer
    # (and the derived volatility / variance) comes back in the requested dtype.  The same sessions go to the system model (op instr_sys).
    def open_session(inst_, base_name, ctor_short, ambient_short):
        keep_, out_ = [], []
        scen_ = {"ambient": ambient_short, "prims": [[base_name, ctor_short]], "derivs": [], "cmds": [], "forms": []}
        sessions.append((scen_, (SYS.isys_observe_single(torch, inst_, keep_), out_)))

        def rec_(cmd, form=None, r=("ok", None)):
            o_, ob_ = SYS.isys_observe_single(torch, inst_, keep_)
            scen_["cmds"].append(cmd)
            scen_["forms"].append(form)
            out_.append(("op", r, o_, ob_))
        return rec_

    REQUESTS = [("to(torch.float64)", "f64", lambda s_: s_.to(torch.float64)), ("to(dtype=torch.float64)", "f64", lambda s_: s_.to(dtype=torch.float64)),
                ("to(torch.float32)", "f32", lambda s_: s_.to(torch.float32)), ("to(dtype=torch.float32)", "f32", lambda s_: s_.to(dtype=torch.float32)),
                ("to(torch.float16)", "f16", lambda s_: s_.to(torch.float16)), ("to(dtype=torch.bfloat16)", "bf16", lambda s_: s_.to(dtype=torch.bfloat16)),
                ("double()", "f64", lambda s_: s_.double()), ("float64()", "f64", lambda s_: s_.float64()),
                ("float()", "f32", lambda s_: s_.float()), ("float32()", "f32", lambda s_: s_.float32()),
                ("half()", "f16", lambda s_: s_.half()), ("float16()", "f16", lambda s_: s_.float16()), ("bfloat16()", "bf16", lambda s_: s_.bfloat16())]
    CTORS = [("constructor dtype=torch.float32", "f32"), ("constructor dtype=torch.float64", "f64"), ("constructor dtype=None", None)]

    def dtype_session(name, amb, how, want_short, request, order, declared=None, target=None, device_only=None):
        """one instrument: [simulate,] request, simulate, simulate with another size; False when the backend cannot simulate in that dtype.
        declared = (how, dtype, cast or None for the constructor argument): the instrument ALREADY carries an explicit dtype -- and, with
        order "after simulate", buffers simulated in it -- when the request under scrutiny is made (a SECOND request: it wins at once, for the
        existing buffers too); device_only: a to(device) / cpu() call after the request leaves every dtype alone"""
        ctor_short = want_short if request is None else (declared[1] if (declared is not None and declared[2] is None) else None)
        inst = SYS.make(torch, I, name, ctor_short)
        want = SYS.tdt(torch, want_short if want_short is not None else amb)
        case = {"instrument": name, "global_default_dtype": DT_NAME[amb], "dtype_requested_by": how, "requested": str(want).replace("torch.", ""), "order": order}
        if declared is not None:
            case |= {"dtype_declared_before_by": declared[0], "declared_before": SYS.DT[declared[1]], "device_only_call_afterwards": device_only}
        ctx.case(case, True, tag="dtype-request" if declared is None else "second-dtype-request")
        ctx.stats[f"dtype-request:{how}"] += 1
        ctx.traces += 1
        rec_ = open_session(inst, name, ctor_short, amb)
        key = f"instrument:dtype-request:{how}" if declared is None else f"instrument:second-dtype-request:{how}"
        if declared is not None and declared[2] is not None:
            try:
                declared[2](inst)
            except Exception as e:  # noqa
                ctx.fail("a dtype request raised", case, key=key + ":error", detail=repr(e)[:200])
                return
            rec_(["prim_to", 0, ["dtype", declared[1]]], declared[0])

        def verify(stage, shape=None):
            bufs = dict(inst.named_buffers())
            if shape is not None and "spot" not in bufs:
                ctx.fail("after simulate() the instrument has no spot buffer", case | {"stage": stage}, key=key + ":no-spot")
            for bn, b in bufs.items():
                if b.dtype != want:
                    ctx.fail("a buffer of the instrument is not in the requested dtype (the dtype was requested by " + how + ", global default dtype "
                             + DT_NAME[amb] + ")", case | {"stage": stage, "buffer": bn}, key=key, detail={"buffer_dtype": str(b.dtype), "instrument.dtype": str(inst.dtype)})
                    return False
                if shape is not None and tuple(b.shape) != shape:
                    ctx.fail("after simulate() a buffer does not have shape (n_paths, n_steps)", case | {"stage": stage, "buffer": bn},
                             key=f"instrument:{name}:buffer-shape", detail={"shape": list(b.shape), "expected": list(shape)})
                    return False
            if shape is not None and want == torch.float64 and "spot" in bufs and shape[1] >= 2:
                # the values, not only the label: a series simulated in float64 is not a float32 series relabelled (continuous draws: some
                # entry after t = 0 is not representable in float32)
                sp_ = bufs["spot"][:, 1:]
                if bool((sp_.to(torch.float32).to(torch.float64) == sp_).all()):
                    ctx.fail("the spot buffer is labelled float64 but every simulated value is a float32 number: the series was not simulated in the requested dtype",
                             case | {"stage": stage}, key=key + ":float32-values", detail={"spot[0]": [float(x) for x in bufs["spot"][0].tolist()][:4]})
                    return False
            for prop in ("volatility", "variance"):
                if prop in bufs or "spot" not in bufs:
                    continue
                try:
                    v_ = getattr(inst, prop)
                except AttributeError:
                    continue
                if v_.dtype != want:
                    ctx.fail(f"the derived {prop} of the instrument is not in the requested dtype", case | {"stage": stage}, key=key + ":" + prop, detail=str(v_.dtype))
                    return False
            return True

        def simulate(stage):
            npaths, T = g.choice([1, 2, 3]), g.choice([2, 3, 5])
            try:
                inst.simulate(n_paths=npaths, time_horizon=(T - 1) / 250)
            except Exception as e:  # noqa
                r = SYS.isys_kind_of_error(e)
                if r[0] == "backend":
                    ctx.stats["dtype-request:backend_unsupported"] += 1
                else:
                    ctx.fail("simulate() raised after a dtype request", case | {"stage": stage}, key=f"instrument:{name}:simulate-error", detail=repr(e)[:200])
                return None
            rec_(["prim_sim", 0, npaths, T])
            return (npaths, T)
        if order == "after simulate":
            # no dtype requested so far: the documented default is the global default dtype
            shape = simulate("simulated before the request")
            if shape is None:
                return
            for bn, b in inst.named_buffers():
                if request is not None and declared is None and b.dtype != SYS.tdt(torch, amb):
                    ctx.fail("no dtype requested: a simulated buffer is not in the global default dtype", case | {"buffer": bn}, key="instrument:dtype-request:none",
                             detail=str(b.dtype))
                if request is not None and declared is not None and b.dtype != SYS.tdt(torch, declared[1]):
                    ctx.fail("a simulated buffer is not in the dtype the instrument was given (" + declared[0] + ")", case | {"buffer": bn, "stage": "simulated before the second request"},
                             key="instrument:second-dtype-request:declared-dtype", detail=str(b.dtype))
        if request is not None:
            try:
                request(inst)
            except Exception as e:  # noqa
                ctx.fail("a dtype request raised", case, key=key + ":error", detail=repr(e)[:200])
                return
            rec_(["prim_to", 0, target or ["dtype", want_short]], how)
            if not verify("right after the request"):
                return
            if device_only is not None:
                try:
                    inst.cpu() if device_only == "cpu()" else inst.to(torch.device("cpu"))
                except Exception as e:  # noqa
                    ctx.fail("a device-only call raised", case, key=key + ":device-only:error", detail=repr(e)[:200])
                    return
                rec_(["prim_to", 0, ["dtype", None]], device_only)
                if not verify("after a device-only call that followed the request"):
                    return
        for stage in ("first simulate() after the request", "second simulate() after the request"):
            shape = simulate(stage)
            if shape is None or not verify(stage, shape):
                return
    DT_NAME = {"f32": "float32", "f64": "float64"}
    # ... the dtype requested through ANOTHER INSTRUMENT, BaseInstrument.to: "instrument: Instrument whose dtype and device are the desired dtype
    # and device of the buffers in this instrument" -- given positionally, to(x), and by keyword, to(instrument=x), where x is a primary
    # instrument (BrownianStock, a primary of another class), a derivative (whose dtype is, by definition, the one of its underlier: European /
    # lookback option, variance swap, a user-defined derivative with one underlier), fresh or already simulated, a derivative whose dtype was set
    # by a cast of the derivative after it was written on an underlier of the OTHER dtype, a primary whose dtype was set by a cast.  Whatever
    # kind of instrument x is and however it got its dtype, x.dtype is "the one requested" (the harness reads it through the public attribute
    # and requires it to be the dtype the target was built with): every buffer, existing or simulated later, has it.  (A target without a
    # dtype of its own is not generated: which dtype it "desires" is not stated.)
    class OneUnderlierDerivative(I.BaseDerivative):
        """a user-defined derivative: pays the final spot of its only underlier"""

        def __init__(self, underlier, maturity=5 / 250):
            super().__init__()
            self.register_underlier("underlier", underlier)
            self.maturity = maturity

        def payoff_fn(self):
            return self.ul().spot[..., -1]

    def simulated(x):
        x.simulate(n_paths=2) if isinstance(x, I.BaseDerivative) else x.simulate(n_paths=2, time_horizon=2 / 250)
        return x
    OTHER_SHORT = {"f64": "f32", "f32": "f64", "f16": "f64"}
    TARGETS = [
        ("BrownianStock(dtype={d})", lambda d: SYS.make(torch, I, "BrownianStock", d), "pk"),
        ("HestonStock(dtype={d}), simulated", lambda d: simulated(SYS.make(torch, I, "HestonStock", d)), "pk"),
        ("CIRRate().to({d})", lambda d: SYS.make(torch, I, "CIRRate", None).to(SYS.tdt(torch, d)), "k"),
        ("EuropeanOption(BrownianStock(dtype={d}))", lambda d: I.EuropeanOption(SYS.make(torch, I, "BrownianStock", d)), "pk"),
        ("LookbackOption(HestonStock(dtype={d})), simulated", lambda d: simulated(I.LookbackOption(SYS.make(torch, I, "HestonStock", d), maturity=3 / 250)), "pk"),
        ("VarianceSwap(MertonJumpStock(dtype={d}))", lambda d: I.VarianceSwap(SYS.make(torch, I, "MertonJumpStock", d)), "k"),
        ("EuropeanOption(BrownianStock(dtype={o})).to({d})", lambda d: I.EuropeanOption(SYS.make(torch, I, "BrownianStock", OTHER_SHORT[d])).to(SYS.tdt(torch, d)), "pk"),
        ("EuropeanOption(KouJumpStock()) cast by double() / float() / half() to {d}",
         lambda d: getattr(I.EuropeanOption(SYS.make(torch, I, "KouJumpStock", None)), {"f64": "double", "f32": "float", "f16": "half"}[d])(), "k"),
        ("user-defined derivative on VasicekRate(dtype={d})", lambda d: OneUnderlierDerivative(SYS.make(torch, I, "VasicekRate", d)), "pk"),
    ]

    def instrument_request(mk, d, keyword):
        def request(s_):
            x = mk(d)
            if x.dtype != SYS.tdt(torch, d):
                raise InternalError(f"harness: the target instrument was built in {d}, its dtype is {x.dtype}")
            s_.to(instrument=x) if keyword else s_.to(x)
        return request
    INSTR_REQUESTS = []
    for d in ("f64", "f32", "f16"):
        for ti, (text, mk, forms) in enumerate(TARGETS):
            if d == "f16" and ti not in (0, 3):
                continue
            text = text.format(d=DT_NAME.get(d, SYS.DT[d]), o=SYS.DT[OTHER_SHORT[d]])
            for f_ in forms:
                INSTR_REQUESTS.append((("to(instrument=" if f_ == "k" else "to(") + text + ")", d, instrument_request(mk, d, f_ == "k"), ["ext", d]))
    try:
        for amb in ("f32", "f64"):
            torch.set_default_dtype(SYS.tdt(torch, amb))
            for name in prims:
                for how, want_short, request in REQUESTS:
                    for order in ("before simulate", "after simulate"):
                        dtype_session(name, amb, how, want_short, request, order)
                for how, want_short, request, target in INSTR_REQUESTS:
                    for order in ("before simulate", "after simulate"):
                        dtype_session(name, amb, how, want_short, request, order, target=target)
                for how, want_short in CTORS:
                    dtype_session(name, amb, how, want_short, None, "before simulate")
        # ... and on an instrument that ALREADY carries an explicit dtype (constructor argument or an earlier cast) and has been simulated in
        # it: a second request -- every spelling above, to(tensor), to(instrument), a cast of a derivative written on the instrument -- wins
        # at once: the existing buffers (and the derived volatility / variance) follow immediately, a device-only call afterwards changes
        # nothing, the next simulations stay in the dtype requested last.  Every class x every spelling x both global defaults, the earlier
        # declaration rotating over the forms below (always another dtype than the one requested; now and then the same one, a no-op); a
        # third of the sessions also with the second request made BEFORE the first simulate (then an earlier half() is possible as well).
        DECLARED = [("constructor dtype=torch.float32", "f32", None), ("constructor dtype=torch.float64", "f64", None),
                    ("an earlier to(torch.float64)", "f64", lambda s_: s_.to(torch.float64)), ("an earlier float()", "f32", lambda s_: s_.float()),
                    ("an earlier double()", "f64", lambda s_: s_.double()), ("an earlier to(dtype=torch.float32)", "f32", lambda s_: s_.to(dtype=torch.float32))]
        DECLARED_UNSIMULATED = DECLARED + [("an earlier half()", "f16", lambda s_: s_.half()), ("an earlier to(torch.bfloat16)", "bf16", lambda s_: s_.to(torch.bfloat16))]
        REQUESTS2 = [(h_, w_, r_, None) for h_, w_, r_ in REQUESTS] + [
            ("to(tensor of dtype float64)", "f64", lambda s_: s_.to(torch.zeros(1, dtype=torch.float64)), ["tensor", "f64"]),
            ("to(tensor of dtype float32)", "f32", lambda s_: s_.to(torch.zeros(1, dtype=torch.float32)), ["tensor", "f32"]),
            ("to(instrument of dtype float64)", "f64", lambda s_: s_.to(I.BrownianStock(dtype=torch.float64)), ["ext", "f64"]),
            ("to(instrument of dtype float32)", "f32", lambda s_: s_.to(I.BrownianStock(dtype=torch.float32)), ["ext", "f32"]),
            ("EuropeanOption(instrument).to(torch.float64)", "f64", lambda s_: I.EuropeanOption(s_).to(torch.float64), None),
            ("EuropeanOption(instrument).float()", "f32", lambda s_: I.EuropeanOption(s_).float(), None)] + INSTR_REQUESTS
        for ai, amb in enumerate(("f32", "f64")):
            torch.set_default_dtype(SYS.tdt(torch, amb))
            for pi, name in enumerate(prims):
                for ri, (how, want_short, request, target) in enumerate(REQUESTS2):
                    for order in ("after simulate", "before simulate"):
                        if order == "before simulate" and not g.chance(0.33):
                            continue
                        pool = DECLARED if order == "after simulate" else DECLARED_UNSIMULATED
                        others = [d_ for d_ in pool if d_[1] != want_short]
                        declared = others[(ai + pi + ri) % len(others)] if not g.chance(0.1) else g.choice([d_ for d_ in pool if d_[1] == want_short] or others)
                        dtype_session(name, amb, how, want_short, request, order, declared=declared, target=target,
                                      device_only=g.choice([None, None, "to(torch.device('cpu'))", "cpu()"]))
    finally:
        torch.set_default_dtype(torch.float32)
    # ---------------- user-defined instruments derived from the eight primary classes that override the documented hooks of the base-class
    # machinery: `default_init_state` ("init_state: if None (default), it uses the default value (see default_init_state)") as a tuple of
    # floats, as 0-dim tensors, or computed from an attribute set in an overridden __init__ (which also chooses other parameters and another
    # dt).  Simulated without init_state -- directly, through a derivative, again after an explicit request -- the first column of every
    # state buffer is the documented default of the DERIVED class; an explicit init_state still wins.
    OTHER = {"BrownianStock": (100.0,), "MertonJumpStock": (100.0,), "KouJumpStock": (2.5,), "LocalVolatilityStock": (100.0,), "HestonStock": (100.0, 0.09),
             "RoughBergomiStock": (2.5, 0.09), "CIRRate": (0.07,), "VasicekRate": (-0.01,)}
    STATE_BUFS = {"HestonStock": ["spot", "variance"], "RoughBergomiStock": ["spot", "variance"]}

    def derive(name, hook, state):
        base = getattr(I, name)
        lv = name == "LocalVolatilityStock"
        if hook == "default_init_state":
            class Derived(base):
                if lv:
                    def __init__(self, **kw):
                        super().__init__(lambda t, s: torch.full_like(s, 0.2), **kw)

                @property
                def default_init_state(self):
                    return state
        elif hook == "default_init_state (0-dim tensors)":
            class Derived(base):
                if lv:
                    def __init__(self, **kw):
                        super().__init__(lambda t, s: torch.full_like(s, 0.2), **kw)

                @property
                def default_init_state(self):
                    # (in the dtype the instrument simulates in: which dtype wins when a tensor state of ANOTHER dtype meets an instrument
                    # without a dtype of its own is not part of the property)
                    return tuple(torch.tensor(x, dtype=torch.get_default_dtype() if self.dtype is None else self.dtype) for x in state)
        else:
            class Derived(base):
                def __init__(self, quote=state, **kw):
                    kw.setdefault("dt", 1 / 365)
                    if lv:
                        super().__init__(lambda t, s: torch.full_like(s, 0.3), **kw)
                    else:
                        super().__init__(**kw)
                    self.quote = quote

                @property
                def default_init_state(self):
                    return tuple(self.quote)
        Derived.__name__ = Derived.__qualname__ = "Derived" + name
        return Derived
    HOOKS = ["default_init_state", "default_init_state (0-dim tensors)", "__init__ + default_init_state"]
    for name in prims:
        for hi, hook in enumerate(HOOKS):
            for dname in ("float32", "float64") if hi == 0 else (g.choice(["float32", "float64", None]),):
                dtype = None if dname is None else getattr(torch, dname)
                want = torch.get_default_dtype() if dtype is None else dtype
                state = OTHER[name] if hi == 0 else tuple(x * g.choice([1.0, 2.0, 0.5]) for x in OTHER[name])
                inst = derive(name, hook, state)(dtype=dtype)
                shipped = SYS.make(torch, I, name, None).default_init_state
                rec_ = open_session(inst, name, SHORT[dname], "f32")
                bufnames = STATE_BUFS.get(name, ["spot"])
                rounds = [("no init_state", None, False), ("no init_state, through a derivative", None, True), ("explicit init_state", tuple(float(x) for x in shipped), False),
                          ("no init_state, after an explicit one", None, g.chance(0.5))]
                for ri, (what, init, via_derivative) in enumerate(rounds):
                    npaths, k_steps = (1, 0) if (ri == 0 and name != "RoughBergomiStock") else (g.choice([1, 3]), g.choice([1, 2, 5]))
                    hor = k_steps * inst.dt
                    case = {"instrument": f"user class derived from {name}", "overridden": hook, "derived_default_init_state": list(state), "dtype": str(dname),
                            "round": what, "n_paths": npaths, "horizon_in_steps": k_steps, "via_derivative": via_derivative}
                    ctx.case(case, True, tag="subclass")
                    ctx.stats[f"subclass:{hook}"] += 1
                    ctx.traces += 1
                    if via_derivative:
                        st, v, _ = call_impl(I.EuropeanOption(inst, maturity=hor).simulate, n_paths=npaths, init_state=init)
                    else:
                        st, v, _ = call_impl(inst.simulate, n_paths=npaths, time_horizon=hor, init_state=init)
                    if st != "ok":
                        ctx.fail("simulate() of a user class derived from a primary instrument raised", case, key=f"instrument:subclass:{name}:simulate-error", detail=v)
                        break
                    if abs(inst.dt - 1 / 250) < 1e-12:
                        rec_(["prim_sim", 0, npaths, k_steps + 1])      # (the system model's grid is the default one)
                    bufs = dict(inst.named_buffers())
                    for bn, b in bufs.items():
                        if tuple(b.shape) != (npaths, k_steps + 1) or b.dtype != want or not bool(b.isfinite().all()):
                            ctx.fail("a user class derived from a primary instrument: a simulated buffer is not a finite (n_paths, n_steps) series of the instrument's dtype",
                                     case | {"buffer": bn}, key=f"instrument:subclass:{name}:buffer", detail={"shape": list(b.shape), "dtype": str(b.dtype)})
                    expect = state if init is None else init
                    for bn, w in zip(bufnames, expect):
                        wq = float(torch.tensor(float(w), dtype=want))
                        first = [float(x) for x in bufs[bn][:, 0].tolist()] if bn in bufs else None
                        # exact, except for the Heston price: generate_heston evolves log S and returns exp(log S), and exp(log(S0)) is S0 only up
                        # to the rounding of the two functions (relative error <= (1 + |log S0|) eps each way; S0 = 100.0 comes back one ulp off)
                        tol = 0.0      # exact for every class (Heston returned exp(log(S0)), one ulp off, until "fix: a Heston price series starts at the initial state itself")
                        if first is None or any(not abs(x - wq) <= tol for x in first):
                            ctx.fail("a user class derived from a primary instrument overrides " + hook + ": simulated without init_state, the first column is not the "
                                     "documented default initial state of the class (or an explicit init_state does not win)", case | {"buffer": bn},
                                     key=f"instrument:subclass:{'default' if init is None else 'explicit'}-init-state:first-column",
                                     detail={"first_column": first if first is None else first[:3], "expected": wq, "default_of_the_shipped_class": [float(x) for x in shipped]})
    # the sessions against the system model: shapes, replacement (generation numbers vs tensor identity), record of the last simulate
    try:
        souts = ctx.driver([SYS.isys_request(sc) for sc, _ in sessions])
    except DriverBroken as e:
        ctx.ties_broken.append({"kind": "driver", "detail": str(e)[:1500]})
        souts = []
    for (sc, real), mo in zip(sessions, souts):
        if "bad" in mo:
            ctx.ties_broken.append({"kind": "driver", "detail": "instr_sys: " + str(mo)[:500]})
            break
        ctx.stats["instr_sys:compared_calls"] += SYS.isys_compare(ctx, sc, real, mo)
    # ---------------- random-number engines (supplied "normals"): antithetic and Sobol/Box-Muller, and generators driven by them
    from pfhedge.stochastic import randn_antithetic, randn_sobol_boxmuller
    from pfhedge.stochastic.engine import RandnSobolBoxMuller
    from torch.quasirandom import SobolEngine
    eng_reqs, eng_meta = [], []
    for it in range(40 if ctx.tier == "quick" else 600):
        N, T = g.choice([1, 2, 3, 4, 5, 8, 16]), g.choice([1, 2, 3, 5])
        dname = g.choice(["float64", "float32"])
        dtype = getattr(torch, dname)
        shuffle = g.chance(0.5)
        case = {"engine": "randn_antithetic", "N": N, "T": T, "dtype": dname, "shuffle": shuffle}
        ctx.case(case | {"it": it}, True, tag="engine")
        ctx.traces += 1
        # record the draws the engine consumes (torch.randn, torch.randperm) so that the model can be fed the same ones
        rec_draws = {}
        _randn, _randperm = torch.randn, torch.randperm

        def _rn(*a, **k):
            t = _randn(*a, **k)
            rec_draws["z"] = t.clone()
            return t

        def _rp(*a, **k):
            t = _randperm(*a, **k)
            rec_draws["perm"] = t.clone()
            return t
        torch.randn, torch.randperm = _rn, _rp
        try:
            st, z, _ = call_impl(randn_antithetic, N, T, dtype=dtype, shuffle=shuffle)
        finally:
            torch.randn, torch.randperm = _randn, _randperm
        if st == "ok" and dname == "float64" and "z" in rec_draws and tuple(z.shape) == (N, T):
            for col in range(T):
                rq = {"op": "antithetic", "n": N, "z": enc_flt([float(x) for x in rec_draws["z"][:, col].tolist()])}
                if shuffle:
                    rq["perm"] = [int(i) for i in rec_draws.get("perm", torch.arange(0)).tolist()]
                eng_reqs.append(rq)
                eng_meta.append((case | {"column": col}, [float(x) for x in z[:, col].tolist()], "antithetic"))
        if st != "ok":
            ctx.fail("randn_antithetic raised", case, key="engine:antithetic:error", detail=z)
        else:
            if tuple(z.shape) != (N, T) or z.dtype != dtype or not bool(z.isfinite().all()):
                ctx.fail("randn_antithetic output is not a finite (paths, steps) tensor of the requested dtype", case, key="engine:antithetic:shape",
                         detail={"shape": list(z.shape), "dtype": str(z.dtype)})
            elif N % 2 == 0:
                rows = sorted(tuple(r) for r in z.tolist())
                neg = sorted(tuple(-x for x in r) for r in z.tolist())
                if rows != neg:
                    ctx.fail("randn_antithetic: the sample is not closed under negation (every draw must come with its mirror image)", case,
                             key="engine:antithetic:pairs")
        sc = g.chance(0.5)
        seed = g.randint(0, 10 ** 6)
        case = {"engine": "RandnSobolBoxMuller", "N": N, "T": T, "dtype": dname, "scramble": sc, "seed": seed}
        ctx.case(case | {"it": it}, True, tag="engine")
        eng = RandnSobolBoxMuller(scramble=sc, seed=seed)
        st, z, _ = call_impl(eng, N, T, dtype=dtype)
        if st != "ok":
            ctx.fail("RandnSobolBoxMuller raised", case, key="engine:sobol:error", detail=z)
        else:
            if tuple(z.shape) != (N, T) or z.dtype != dtype or not bool(z.isfinite().all()):
                ctx.fail("RandnSobolBoxMuller output is not a finite tensor of the requested shape and dtype", case, key="engine:sobol:shape",
                         detail={"shape": list(z.shape), "dtype": str(z.dtype)})
            else:
                numel = N * T
                u = SobolEngine(2, scramble=sc, seed=seed).draw(numel // 2 + 1).to(dtype=torch.float64)
                z0 = [math.sqrt(-2 * math.log(max(float(a), 1e-10))) * math.cos(2 * math.pi * float(b)) for a, b in u.tolist()]
                z1 = [math.sqrt(-2 * math.log(max(float(a), 1e-10))) * math.sin(2 * math.pi * float(b)) for a, b in u.tolist()]
                want = (z0 + z1)[:numel]
                tol = 1e-9 if dname == "float64" else 2e-5
                if any(abs(a - b) > tol * max(1.0, abs(b)) for a, b in zip(z.reshape(-1).tolist(), want)):
                    ctx.fail("RandnSobolBoxMuller output is not the Box-Muller transform of the Sobol points", case, key="engine:sobol:value")
                if dname == "float64":
                    eng_reqs.append({"op": "sobol_bm", "n": numel, "eps": float_bits(1e-10), "u": enc_flt([[float(a), float(b)] for a, b in u.tolist()])})
                    eng_meta.append((case, [float(x) for x in z.reshape(-1).tolist()], "sobol_bm"))
        # generators / instruments driven by these engines
        for ename, engine in (("antithetic", randn_antithetic), ("sobol", RandnSobolBoxMuller(scramble=True, seed=seed))):
            gname = g.choice(["brownian", "geometric_brownian", "merton_jump", "kou_jump", "MertonJumpStock", "KouJumpStock"])
            n_ = g.choice([1, 2, 6])
            c2 = {"engine": ename, "generator": gname, "N": N, "n": n_, "dtype": dname}
            ctx.case(c2 | {"it": it}, True, tag="engine-driven")
            ctx.stats[f"engine-driven={gname}"] += 1
            cols = n_
            try:
                if gname == "brownian":
                    o = S.generate_brownian(N, n_, init_state=(0.5,), dtype=dtype, engine=engine)
                    first = 0.5
                elif gname == "geometric_brownian":
                    o = S.generate_geometric_brownian(N, n_, init_state=(1.5,), dtype=dtype, engine=engine)
                    first = 1.5
                elif gname == "merton_jump":
                    o = S.generate_merton_jump(N, n_, init_state=(1.5,), dtype=dtype, engine=engine)
                    first = 1.5
                elif gname == "kou_jump":
                    o = S.generate_kou_jump(N, n_, init_state=(1.5,), dtype=dtype, engine=engine)
                    first = 1.5
                else:
                    # (a started step counts as a whole one: the horizon is not always a multiple of dt)
                    frac_e = g.choice([0.0, 0.0, 0.3, 0.5, 0.7])
                    c2 = c2 | {"horizon_in_steps": n_ - 1 + frac_e}
                    inst = getattr(I, gname)(dtype=dtype, engine=engine)
                    inst.simulate(n_paths=N, time_horizon=(n_ - 1 + frac_e) / 250)
                    o = inst.spot
                    first = 1.0
                    cols = n_ + (1 if frac_e > 0.0 else 0)
            except Exception as e:  # noqa
                ctx.fail("a generator driven by a supplied engine raised", c2, key=f"engine-driven:{gname}:error", detail=repr(e)[:200])
                continue
            if tuple(o.shape) != (N, cols) or o.dtype != dtype or not bool(o.isfinite().all()):
                ctx.fail("a generator driven by a supplied engine returned a malformed series", c2, key=f"engine-driven:{gname}:shape",
                         detail={"shape": list(o.shape), "dtype": str(o.dtype)})
                continue
            if any(float(x) != float(torch.tensor(first, dtype=dtype)) for x in o[:, 0].tolist()):
                ctx.fail("the first column differs from the requested initial state (supplied engine)", c2, key=f"engine-driven:{gname}:first-column")
            if gname != "brownian" and not bool((o > 0).all()):
                ctx.fail("an exponential-type price process is not positive (supplied engine)", c2, key=f"engine-driven:{gname}:positivity")
    try:
        eouts = ctx.driver(eng_reqs)
    except DriverBroken as e:
        ctx.ties_broken.append({"kind": "driver", "detail": str(e)[:1500]})
        eouts = []
    for (case, real, op), mo in zip(eng_meta, eouts):
        if "ok" not in mo:
            ctx.disagree(op, case, real, mo)
            continue
        mv = dec_flt(mo["ok"])
        # antithetic: negation and selection are exact; Box-Muller goes through log / sqrt / cos / sin
        ok_ = (mv == real) if op == "antithetic" else close_arr(real, mv, 1e-9, 1e-12)
        if not ok_:
            ctx.disagree(op, case, real, mv)
    # EXTREME ADMISSIBLE REGIMES of the variance processes (deterministic corpus, every tier): psi = s^2 / m^2 of Andersen's QE scheme so large
    # that p = (psi - 1) / (psi + 1) rounds to 1 (sigma^2 / (2 kappa theta) above ~3e7: slow reversion to a tiny long-run variance with high
    # vol-of-vol), tiny theta, small kappa, zero / tiny / default initial variance, dt from 1/250 to 10, both dtypes, the four entry points
    # generate_cir, CIRRate, generate_heston, HestonStock: finite (paths, steps) series of the requested dtype starting at the requested state,
    # variance >= 0, price > 0 or 0 only next to an underflow, volatility == sqrt(variance).  theta > 0 and kappa * dt >= 4e-7 (below the
    # resolution of the dtype 1 - exp(-kappa dt) is 0 and the scheme is degenerate, as for theta = 0).
    XREG = [(1e-3, 1e-4, 3.0), (1.0, 1e-8, 1.0), (1e-4, 1e-10, 2.0), (1.0, 1e-12, 0.5), (5.0, 1e-6, 10.0), (0.5, 1e-30, 1.0), (1e-2, 1e-9, 4.0), (1.0, 0.04, 2.0)]
    XV0 = [None, 0.0, 1e-12, 1e-4, 1e-30]
    XDT = [1 / 250, 1.0, 10.0]

    def extreme_ok(series, N_, n_, want, state, price, dt_):
        """None or the name of the broken clause"""
        for k, t in series.items():
            if tuple(t.shape) != (N_, n_) or t.dtype != want:
                return "shape-dtype"
            if not bool(t.isfinite().all()):
                return "nonfinite"
        for bn, w in state.items():
            if not bool((series[bn][:, 0] == torch.tensor(float(w), dtype=want)).all()):
                return "first-column"
        var = series["variance" if price else "spot"]
        if not bool((var >= 0).all()):
            return "variance-negative"
        if price and bool((series["spot"] < 0).any()):
            return "price-negative"
        if price and bool(((series["spot"] == 0).any(dim=1) & (series["variance"].sum(dim=1) * dt_ < 20.0)).any()):
            return "price-zero"       # a zero on a path whose integrated variance is far too small for exp() to underflow
        if "volatility" in series and not torch.equal(series["volatility"], series["variance"].clamp(min=0.0).sqrt()):
            return "volatility"
        return None

    xi_ = 0
    for dname in ("float32", "float64"):
        want = getattr(torch, dname)
        for (kap, th, sg) in XREG:
            for v0 in XV0:
                for dt in XDT:
                    if kap * dt < 4e-7:
                        continue
                    xi_ += 1
                    if ctx.tier == "quick" and v0 not in (None, 1e-4) and (xi_ % 3):
                        continue
                    N_, n_ = g.choice([16, 48]), g.choice([8, 14])
                    seed = g.randint(0, 10 ** 6)
                    v0q = th if v0 is None else v0
                    for entry in ("generate_cir", "CIRRate", "generate_heston", "HestonStock"):
                        case = {"extreme": entry, "kappa": kap, "theta": th, "sigma": sg, "v0": v0, "dt": dt, "N": N_, "n": n_, "dtype": dname, "seed": seed}
                        ctx.case(case, True, tag="extreme-regime")
                        torch.manual_seed(seed)
                        try:
                            if entry == "generate_cir":
                                ser = {"spot": S.generate_cir(N_, n_, init_state=None if v0 is None else (v0,), kappa=kap, theta=th, sigma=sg, dt=dt, dtype=want)}
                                state = {"spot": v0q}
                            elif entry == "CIRRate":
                                ins = I.CIRRate(kappa=kap, theta=th, sigma=sg, dt=dt, dtype=want)
                                ins.simulate(n_paths=N_, time_horizon=(n_ - 1) * dt, init_state=None if v0 is None else (v0,))
                                ser, state = {"spot": ins.spot}, {"spot": v0q}
                            elif entry == "generate_heston":
                                o = S.generate_heston(N_, n_, init_state=None if v0 is None else (100.0, v0), kappa=kap, theta=th, sigma=sg, rho=-0.7, dt=dt, dtype=want)
                                ser = {"spot": o.spot, "variance": o.variance, "volatility": o.volatility}
                                state = {"variance": v0q, "spot": 1.0 if v0 is None else 100.0}
                            else:
                                ins = I.HestonStock(kappa=kap, theta=th, sigma=sg, rho=-0.7, dt=dt, dtype=want)
                                ins.simulate(n_paths=N_, time_horizon=(n_ - 1) * dt, init_state=None if v0 is None else (100.0, v0))
                                ser = {"spot": ins.spot, "variance": ins.variance, "volatility": ins.volatility}
                                state = {"variance": v0q, "spot": 1.0 if v0 is None else 100.0}
                        except InternalError:
                            raise
                        except Exception as e:  # noqa
                            ctx.fail("a variance-process generator / instrument raised in an extreme admissible parameter regime", case,
                                     key=f"extreme-regime:{entry}:error", detail=repr(e)[:200])
                            continue
                        if tuple(ser["spot"].shape) != (N_, n_) and entry in ("CIRRate", "HestonStock") and ser["spot"].shape[0] == N_ and abs(ser["spot"].shape[1] - n_) <= 1:
                            n_eff = ser["spot"].shape[1]      # (n - 1) * dt / dt in floating point: the ceil rule is checked elsewhere
                        else:
                            n_eff = n_
                        bad = extreme_ok(ser, N_, n_eff, want, state, entry in ("generate_heston", "HestonStock"), dt)
                        if bad:
                            k0 = "variance" if "variance" in ser else "spot"
                            ctx.fail("in an extreme admissible parameter regime (huge psi / tiny theta / small kappa / zero or tiny initial variance / large dt) "
                                     "a series is not well-formed: " + bad, case, key=f"extreme-regime:{entry}:{bad}",
                                     detail={k0 + "[0]": [float(x) for x in ser[k0][0].tolist()][:6], "nonfinite": {k: int((~t.isfinite()).sum()) for k, t in ser.items()}})
    # K11: mean reversion so slow that kappa * dt is below the resolution of the dtype (exp(-kappa dt) rounds to 1): recorded finding
    rng_k11 = torch.get_rng_state()
    try:
        for kap_, th_, sg_, dt_ in ((1e-8, 0.04, 1.0, 1 / 250), (1e-6, 1e-6, 5.0, 1 / 250)):
            torch.manual_seed(1)
            c11 = {"entry": "generate_cir", "kappa": kap_, "theta": th_, "sigma": sg_, "dt": dt_, "dtype": "float32", "n_paths": 4, "n_steps": 5, "torch_seed": 1}
            ctx.case(c11, True, tag="kappa-dt-underflow")
            try:
                o = S.generate_cir(4, 5, kappa=kap_, theta=th_, sigma=sg_, dt=dt_, dtype=torch.float32)
            except Exception as e:  # noqa
                ctx.fail("generate_cir raises for a tiny positive mean-reversion speed", c11, key="extreme-regime:generate_cir:kappa-dt-underflow", detail=repr(e)[:200])
                continue
            if not bool(o.isfinite().all()) or bool((o < 0).any()):
                ctx.fail("generate_cir returns non-finite or negative values when kappa * dt is below the resolution of the dtype", c11,
                         key="extreme-regime:generate_cir:kappa-dt-underflow", detail={"row0": [float(x) for x in o[0].tolist()]})
    finally:
        torch.set_rng_state(rng_k11)
    # the named tuples returned by the stochastic-volatility generators: volatility = sqrt(max(variance, 0))
    for it in range(10 if ctx.tier == "quick" else 100):
        N, n_ = g.choice([1, 3]), g.choice([1, 2, 6])
        o = S.generate_heston(N, n_, sigma=g.choice([0.2, 2.0]), dtype=torch.float64)
        c2 = {"tuple": "heston", "N": N, "n": n_}
        ctx.case(c2 | {"it": it}, True, tag="tuple")
        if not torch.equal(o.volatility, o.variance.clamp(min=0.0).sqrt()):
            ctx.fail("generate_heston(...).volatility is not the square root of the (clamped) variance", c2, key="gen:heston:volatility")
        o = S.generate_rough_bergomi(N, max(2, n_), dtype=torch.float64)
        if not torch.equal(o.volatility, o.variance.clamp(min=0.0).sqrt()):
            ctx.fail("generate_rough_bergomi(...).volatility is not the square root of the (clamped) variance", c2, key="gen:rough_bergomi:volatility")
        o = S.generate_local_volatility_process(N, n_, lambda t, s: 0.2 + 0.1 * s, dtype=torch.float64)
        if not torch.allclose(o.variance, o.volatility.square()):
            ctx.fail("generate_local_volatility_process(...).variance is not the square of the volatility", c2, key="gen:local_volatility:variance")
    return ctx.finish(
        rule="nine generators x parameter sweeps (non-default initial states, high vol-of-vol / tiny variance, zero and high jump intensities) x "
             "float32/float64; random-number engines (antithetic: shape, dtype, closure under negation; Sobol/Box-Muller: equals the Box-Muller "
             "transform of the Sobol points) and generators / instruments driven by them; named-tuple volatility/variance; eight primary instruments with repeated simulate() under changing path counts / horizons (multiples of dt and "
             "fractional numbers of steps on several time grids, directly and through a derivative's maturity) / initial states; 13 spellings of a dtype request "
             "+ 3 constructor forms x 8 classes x global default float32 / float64 x before / after simulate (also replayed in the system model); 33 spellings of a request "
             "through another instrument (to(x) / to(instrument=x), x primary or derivative) likewise; a second request (19 + 33 spellings) "
             "on an instrument with an explicit dtype (2 constructor forms, 4-6 earlier casts) x 8 classes x both global defaults, after (always) / before (a third) the first "
             "simulate, device-only calls in between (system model too); non-default initial states in 7-9 spellings x 2 dtypes x 9 generators and 8 instruments, jump models at "
             "intensity 0 / 0.0 / 5; integer-typed initial states in 7-9 spellings x dtype unset / float32 / float64 x 9 generators and 8 instruments; instrument vs "
             "functional on the same arguments (iff + identical series; asymmetric / boundary / inadmissible parameter rows and random ones); user classes derived from "
             "the 8 classes overriding default_init_state (3 forms) simulated without / with init_state, directly and through a derivative; every case "
             "non-trivial; distinct = sha1 of canonical case")
